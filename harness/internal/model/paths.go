package model

import (
	"encoding/json"
	"math"
	"math/big"
	"unicode/utf8"
)

// Reference path primitives. Always copying (persistent): a result never
// shares a mutated container with its input.

func idxInt(k any) (int, bool, error) {
	switch x := norm(k).(type) {
	case int:
		return x, true, nil
	case float64:
		if math.IsNaN(x) {
			return 0, false, unsup("NaN index")
		}
		if x < 0 && x != math.Trunc(x) {
			return 0, false, unsup("negative fractional index")
		}
		if math.Abs(x) > 1<<40 {
			return 0, false, unsup("huge index")
		}
		return int(math.Floor(x)), true, nil
	case *big.Int:
		return 0, false, unsup("huge index")
	}
	return 0, false, nil
}

func idxIntCeil(k any) (int, bool, error) {
	if f, ok := norm(k).(float64); ok {
		if math.IsNaN(f) || math.Abs(f) > 1<<40 {
			return 0, false, unsup("NaN or huge index")
		}
		if f < 0 && f != math.Trunc(f) {
			return 0, false, unsup("negative fractional index")
		}
		return int(math.Ceil(f)), true, nil
	}
	return idxInt(k)
}

// sliceIdx: jq (jv_aux.c, parse_slice) adds the length to a negative boundary first, as a double, and rounds
// afterwards: the start down, the end up. So -0.5 as an end is the length, -1.5 as a start is length-2.
func sliceIdx(k any, n int, end bool) (int, bool, error) {
	f, ok := norm(k).(float64)
	if !ok || f >= 0 || f == math.Trunc(f) {
		if end {
			return idxIntCeil(k)
		}
		return idxInt(k)
	}
	if math.Abs(f) > 1<<40 {
		return 0, false, unsup("huge index")
	}
	f = math.Max(f+float64(n), 0)
	if end {
		return int(math.Ceil(f)), true, nil
	}
	return int(math.Floor(f)), true, nil
}

func clamp(i, lo, hi int) int {
	if i < 0 {
		i += hi
	}
	if i < lo {
		return lo
	}
	if i > hi {
		return hi
	}
	return i
}

func sliceBounds(spec map[string]any, n int) (int, int, error) {
	s, ok1 := spec["start"]
	e, ok2 := spec["end"]
	if !ok1 || !ok2 {
		return 0, 0, ierr("slice needs start and end")
	}
	start, end := 0, n
	if s != nil {
		i, ok, err := sliceIdx(s, n, false)
		if err != nil {
			return 0, 0, err
		}
		if !ok {
			return 0, 0, ierr("slice start must be a number")
		}
		start = clamp(i, 0, n)
	}
	if e != nil {
		i, ok, err := sliceIdx(e, n, true)
		if err != nil {
			return 0, 0, err
		}
		if !ok {
			return 0, 0, ierr("slice end must be a number")
		}
		end = clamp(i, start, n)
		if end < start {
			end = start
		}
	}
	return start, end, nil
}

// Index is `v[k]` (null-tolerant; negative indices from the end; fractional
// indices floor; object keys must be strings; a start/end object slices).
func Index(v, k any) (any, error) {
	if _, ok := v.(Opaque); ok {
		return nil, unsup("indexing a caught error message")
	}
	if _, ok := k.(Opaque); ok {
		return nil, unsup("indexing by a caught error message")
	}
	switch key := k.(type) {
	case string:
		switch x := v.(type) {
		case nil:
			return nil, nil
		case map[string]any:
			return x[key], nil
		}
		return nil, ierr("cannot index %s with a string", TypeName(v))
	case map[string]any:
		switch x := v.(type) {
		case nil:
			if _, ok := key["start"]; !ok {
				return nil, unsup("null sliced by a malformed slice object")
			}
			if _, ok := key["end"]; !ok {
				return nil, unsup("null sliced by a malformed slice object")
			}
			return nil, nil
		case []any:
			s, e, err := sliceBounds(key, len(x))
			if err != nil {
				return nil, err
			}
			return x[s:e:e], nil
		case string:
			rs := []rune(x)
			if !utf8.ValidString(x) {
				return nil, unsup("slicing invalid UTF-8")
			}
			s, e, err := sliceBounds(key, len(rs))
			if err != nil {
				return nil, err
			}
			return string(rs[s:e]), nil
		}
		return nil, ierr("cannot slice %s", TypeName(v))
	case []any:
		if v == nil {
			return nil, nil
		}
		return nil, unsup("index by array (indices)")
	case nil:
		return nil, unsup("index by null (jq versions differ)")
	case bool:
		return nil, ierr("cannot index with a boolean")
	}
	if IsNum(k) {
		i, ok, err := idxInt(k)
		if err != nil {
			return nil, err
		}
		if !ok {
			return nil, ierr("bad index")
		}
		switch x := v.(type) {
		case nil:
			return nil, nil
		case []any:
			if i < 0 {
				i += len(x)
			}
			if i < 0 || i >= len(x) {
				return nil, nil
			}
			return x[i], nil
		case string:
			if !utf8.ValidString(x) {
				return nil, unsup("indexing invalid UTF-8")
			}
			rs := []rune(x)
			if i < 0 {
				i += len(rs)
			}
			if i < 0 || i >= len(rs) {
				return nil, nil
			}
			return string(rs[i]), nil
		}
		return nil, ierr("cannot index %s with a number", TypeName(v))
	}
	return nil, ierr("bad index type")
}

// Getpath is getpath(p): null-tolerant navigation.
func Getpath(v any, path []any) (any, error) {
	for _, k := range path {
		switch v.(type) {
		case nil, []any, map[string]any, string:
			// strings: positions and slices of a string are locations that path(.[i]) / path(.[i:j]) emit, so
			// getpath must be able to read them back (jq reads string slices back too)
		default:
			return nil, ierr("getpath cannot be applied to %s", TypeName(v))
		}
		w, err := Index(v, k)
		if err != nil {
			return nil, err
		}
		v = w
	}
	return v, nil
}

type deleted struct{}

// Setpath is setpath(p; n), persistent.
func Setpath(v any, path []any, n any) (any, error) {
	if len(path) == 0 {
		return n, nil
	}
	k := path[0]
	if _, ok := k.(Opaque); ok {
		return nil, unsup("path through a caught error message")
	}
	switch key := k.(type) {
	case string:
		switch x := v.(type) {
		case nil, map[string]any:
			var m map[string]any
			if x != nil {
				m = x.(map[string]any)
			}
			cur, present := m[key]
			if _, del := n.(deleted); del && !present {
				return v, nil
			}
			u, err := Setpath(cur, path[1:], n)
			if err != nil {
				return nil, err
			}
			w := make(map[string]any, len(m)+1)
			for kk, vv := range m {
				w[kk] = vv
			}
			w[key] = u
			return w, nil
		case deleted:
			return v, nil
		}
		return nil, ierr("cannot set field of %s", TypeName(v))
	case map[string]any:
		switch x := v.(type) {
		case nil, []any:
			var arr []any
			if x != nil {
				arr = x.([]any)
			}
			s, e, err := sliceBounds(key, len(arr))
			if err != nil {
				return nil, err
			}
			if _, del := n.(deleted); del && s == e {
				return v, nil
			}
			u, err := Setpath(append([]any{}, arr[s:e]...), path[1:], n)
			if err != nil {
				return nil, err
			}
			switch uu := u.(type) {
			case []any:
				w := make([]any, 0, len(arr)-(e-s)+len(uu))
				w = append(w, arr[:s]...)
				w = append(w, uu...)
				w = append(w, arr[e:]...)
				return w, nil
			case deleted:
				w := append([]any{}, arr...)
				for i := s; i < e; i++ {
					w[i] = deleted{}
				}
				return w, nil
			}
			return nil, ierr("a slice can only be assigned an array")
		case deleted:
			return v, nil
		}
		return nil, ierr("cannot update slice of %s", TypeName(v))
	case []any, nil, bool:
		return nil, ierr("invalid path element")
	}
	if IsNum(k) {
		i, ok, err := idxInt(k)
		if err != nil {
			return nil, err
		}
		if !ok {
			return nil, ierr("bad index")
		}
		switch x := v.(type) {
		case nil, []any:
			var arr []any
			if x != nil {
				arr = x.([]any)
			}
			_, del := n.(deleted)
			j := i
			if j < 0 {
				j += len(arr)
				if j < 0 {
					if del {
						return v, nil
					}
					return nil, ierr("out of bounds negative array index")
				}
			}
			if j >= len(arr) && del {
				return v, nil
			}
			if j > 1<<22 {
				return nil, unsup("array index too large for the model")
			}
			var cur any
			if j < len(arr) {
				cur = arr[j]
			}
			u, err := Setpath(cur, path[1:], n)
			if err != nil {
				return nil, err
			}
			w := make([]any, max(len(arr), j+1))
			copy(w, arr)
			w[j] = u
			return w, nil
		case deleted:
			return v, nil
		}
		return nil, ierr("cannot set index of %s", TypeName(v))
	}
	return nil, ierr("invalid path element")
}

// Delpaths deletes all paths, every path interpreted against the original
// value (mark, then sweep).
func Delpaths(v any, paths []any) (any, error) {
	u := v
	for _, p := range paths {
		path, ok := p.([]any)
		if !ok {
			return nil, ierr("path must be an array")
		}
		w, err := Setpath(u, path, deleted{})
		if err != nil {
			return nil, err
		}
		u = w
	}
	return sweep(u), nil
}

func sweep(v any) any {
	switch x := v.(type) {
	case deleted:
		return nil
	case []any:
		out := make([]any, 0, len(x))
		for _, e := range x {
			if _, del := e.(deleted); !del {
				out = append(out, sweep(e))
			}
		}
		return out
	case map[string]any:
		out := make(map[string]any, len(x))
		for k, e := range x {
			if _, del := e.(deleted); !del {
				out[k] = sweep(e)
			}
		}
		return out
	}
	return v
}

// AllPaths lists every path of v in `paths` order (pre-order, keys sorted).
func AllPaths(v any) [][]any {
	var out [][]any
	var walk func(v any, p []any)
	walk = func(v any, p []any) {
		switch x := v.(type) {
		case []any:
			for i, e := range x {
				q := append(append([]any{}, p...), i)
				out = append(out, q)
				walk(e, q)
			}
		case map[string]any:
			for _, k := range SortedKeys(x) {
				q := append(append([]any{}, p...), k)
				out = append(out, q)
				walk(x[k], q)
			}
		}
	}
	walk(v, nil)
	return out
}

var _ = json.Number("")
var _ = big.NewInt
