package model

import (
	"encoding/json"
	"fmt"
	"math"
	"math/big"
	"sort"
	"strconv"
	"strings"
	"unicode/utf8"
)

// Error kinds of the model.

// UserErr is raised by error(v): carries a value, compared exactly.
type UserErr struct{ V any }

func (e *UserErr) Error() string { return "user error: " + fmt.Sprint(e.V) }

// InternalErr is any error raised by an operation itself (type error, invalid
// path, ...). Its wording is not part of any property.
type InternalErr struct{ Msg string }

func (e *InternalErr) Error() string { return "internal error: " + e.Msg }

// BreakErr unwinds to its label.
type BreakErr struct{ ID int }

func (e *BreakErr) Error() string { return "break" }

// HaltErr stops the program.
type HaltErr struct {
	V    any
	Code int
}

func (e *HaltErr) Error() string { return "halt" }

// Unsupported means the model cannot decide this program.
type Unsupported struct{ What string }

func (e *Unsupported) Error() string { return "unsupported by model: " + e.What }

// BudgetErr means the model's step budget ran out.
type BudgetErr struct{}

func (e *BudgetErr) Error() string { return "model step budget exhausted" }

func ierr(format string, a ...any) error { return &InternalErr{fmt.Sprintf(format, a...)} }
func unsup(format string, a ...any) error {
	return &Unsupported{fmt.Sprintf(format, a...)}
}

// Opaque stands for the text of a caught internal error: an implementation
// defined string. It compares equal to any string on the other side.
type Opaque struct{}

// ContainsOpaque reports whether v contains an Opaque token.
func ContainsOpaque(v any) bool {
	switch v := v.(type) {
	case Opaque:
		return true
	case []any:
		for _, x := range v {
			if ContainsOpaque(x) {
				return true
			}
		}
	case map[string]any:
		for _, x := range v {
			if ContainsOpaque(x) {
				return true
			}
		}
	}
	return false
}

// TypeName returns jq's type name.
func TypeName(v any) string {
	switch v.(type) {
	case nil:
		return "null"
	case bool:
		return "boolean"
	case int, float64, *big.Int, json.Number:
		return "number"
	case string, Opaque:
		return "string"
	case []any:
		return "array"
	case map[string]any:
		return "object"
	}
	return fmt.Sprintf("%T", v)
}

// Truthy is jq truthiness.
func Truthy(v any) bool { return v != nil && v != false }

// IsNum reports whether v is a number.
func IsNum(v any) bool {
	switch v.(type) {
	case int, float64, *big.Int, json.Number:
		return true
	}
	return false
}

// norm turns a json.Number into int / *big.Int / float64 and a *big.Int that
// fits into int.
func norm(v any) any {
	switch x := v.(type) {
	case json.Number:
		s := string(x)
		if !strings.ContainsAny(s, ".eE") {
			if b, ok := new(big.Int).SetString(s, 10); ok {
				return normBig(b)
			}
		}
		f, err := strconv.ParseFloat(s, 64)
		if err != nil {
			if math.IsInf(f, 0) {
				return f
			}
			return math.NaN()
		}
		return f
	case *big.Int:
		return normBig(x)
	}
	return v
}

func normBig(b *big.Int) any {
	if b.IsInt64() {
		if i := b.Int64(); int64(int(i)) == i {
			return int(i)
		}
	}
	return b
}

func toBig(v any) *big.Int {
	switch x := v.(type) {
	case int:
		return big.NewInt(int64(x))
	case *big.Int:
		return x
	}
	return nil
}

// ToFloat converts a number to float64.
func ToFloat(v any) float64 {
	switch x := norm(v).(type) {
	case int:
		return float64(x)
	case float64:
		return x
	case *big.Int:
		f, _ := new(big.Float).SetInt(x).Float64()
		return f
	}
	return math.NaN()
}

func isInt(v any) bool {
	switch v.(type) {
	case int, *big.Int:
		return true
	}
	return false
}

// Arith applies a binary arithmetic operator with jq's documented type
// dispatch. Integers are exact at any size.
func Arith(op string, l, r any) (any, error) {
	if _, ok := l.(Opaque); ok {
		return nil, unsup("arithmetic on a caught error message")
	}
	if _, ok := r.(Opaque); ok {
		return nil, unsup("arithmetic on a caught error message")
	}
	l, r = norm(l), norm(r)
	terr := func() error { return ierr("cannot %s: %s and %s", op, TypeName(l), TypeName(r)) }
	switch op {
	case "+":
		switch {
		case l == nil:
			return r, nil
		case r == nil:
			return l, nil
		case IsNum(l) && IsNum(r):
			if isInt(l) && isInt(r) {
				return normBig(new(big.Int).Add(toBig(l), toBig(r))), nil
			}
			return ToFloat(l) + ToFloat(r), nil
		}
		switch x := l.(type) {
		case string:
			if y, ok := r.(string); ok {
				return x + y, nil
			}
		case []any:
			if y, ok := r.([]any); ok {
				out := make([]any, 0, len(x)+len(y))
				return append(append(out, x...), y...), nil
			}
		case map[string]any:
			if y, ok := r.(map[string]any); ok {
				m := make(map[string]any, len(x)+len(y))
				for k, v := range x {
					m[k] = v
				}
				for k, v := range y {
					m[k] = v
				}
				return m, nil
			}
		}
		return nil, terr()
	case "-":
		if IsNum(l) && IsNum(r) {
			if isInt(l) && isInt(r) {
				return normBig(new(big.Int).Sub(toBig(l), toBig(r))), nil
			}
			return ToFloat(l) - ToFloat(r), nil
		}
		if x, ok := l.([]any); ok {
			if y, ok := r.([]any); ok {
				if hasNaN(x) || hasNaN(y) {
					return nil, unsup("array difference with NaN")
				}
				out := []any{}
				for _, v := range x {
					keep := true
					for _, w := range y {
						if Cmp(v, w) == 0 {
							keep = false
							break
						}
					}
					if keep {
						out = append(out, v)
					}
				}
				return out, nil
			}
		}
		return nil, terr()
	case "*":
		if IsNum(l) && IsNum(r) {
			if isInt(l) && isInt(r) {
				return normBig(new(big.Int).Mul(toBig(l), toBig(r))), nil
			}
			return ToFloat(l) * ToFloat(r), nil
		}
		if x, ok := l.(map[string]any); ok {
			if y, ok := r.(map[string]any); ok {
				return deepMerge(x, y), nil
			}
		}
		// string repetition (either order)
		if s, ok := l.(string); ok && IsNum(r) {
			return repeatStr(s, ToFloat(r))
		}
		if s, ok := r.(string); ok && IsNum(l) {
			return repeatStr(s, ToFloat(l))
		}
		return nil, terr()
	case "/":
		if IsNum(l) && IsNum(r) {
			if isInt(l) && isInt(r) {
				a, b := toBig(l), toBig(r)
				if b.Sign() == 0 {
					return nil, ierr("cannot divide by zero")
				}
				q, m := new(big.Int).QuoRem(a, b, new(big.Int))
				if m.Sign() == 0 {
					return normBig(q), nil
				}
				return ToFloat(l) / ToFloat(r), nil
			}
			if ToFloat(r) == 0 {
				return nil, ierr("cannot divide by zero")
			}
			return ToFloat(l) / ToFloat(r), nil
		}
		if x, ok := l.(string); ok {
			if y, ok := r.(string); ok {
				if y == "" && !utf8.ValidString(x) {
					return nil, unsup("splitting invalid UTF-8 into characters")
				}
				return splitStr(x, y), nil
			}
		}
		return nil, terr()
	case "%":
		if IsNum(l) && IsNum(r) {
			if isInt(l) && isInt(r) {
				a, b := toBig(l), toBig(r)
				if b.Sign() == 0 {
					return nil, ierr("cannot modulo by zero")
				}
				return normBig(new(big.Int).Rem(a, b)), nil
			}
			// floats are truncated to integers first
			fl, fr := ToFloat(l), ToFloat(r)
			if math.IsNaN(fl) || math.IsNaN(fr) || math.IsInf(fl, 0) || math.IsInf(fr, 0) || math.Abs(fl) >= 1<<53 || math.Abs(fr) >= 1<<53 {
				return nil, unsup("modulo of non-finite or huge floats")
			}
			a, b := int64(fl), int64(fr)
			if b == 0 {
				return nil, ierr("cannot modulo by zero")
			}
			return int(a % b), nil
		}
		return nil, terr()
	}
	return nil, unsup("operator %s", op)
}

func repeatStr(s string, n float64) (any, error) {
	if math.IsNaN(n) {
		return nil, unsup("string repeat by NaN")
	}
	if n <= 0 {
		return nil, unsup("string repeat by a non-positive count (jq versions differ)")
	}
	if n < 1 {
		return nil, unsup("string repeat by a fractional count below 1 (jq versions differ)")
	}
	k := int(n)
	if n != math.Trunc(n) {
		return nil, unsup("string repeat by a fractional count")
	}
	if n > 1<<24 || float64(len(s))*n > 1<<24 {
		return nil, unsup("string repeat too large for the model")
	}
	return strings.Repeat(s, k), nil
}

// canonicalSpelling: the literal is spelled the way the value would be printed after a computation.
func canonicalSpelling(s string) bool {
	if !strings.ContainsAny(s, ".eE") {
		b, ok := new(big.Int).SetString(s, 10)
		return ok && b.String() == s
	}
	f, err := strconv.ParseFloat(s, 64)
	if err != nil || math.IsInf(f, 0) || f == math.Trunc(f) && math.Abs(f) < 1e15 {
		return false
	}
	return math.Abs(f) >= 1e-5 && math.Abs(f) < 1e15 && strconv.FormatFloat(f, 'f', -1, 64) == s
}

func splitStr(s, sep string) any {
	if s == "" {
		return []any{}
	}
	var parts []string
	if sep == "" {
		for _, r := range s {
			parts = append(parts, string(r))
		}
	} else {
		parts = strings.Split(s, sep)
	}
	out := make([]any, len(parts))
	for i, p := range parts {
		out[i] = p
	}
	return out
}

func deepMerge(x, y map[string]any) map[string]any {
	m := make(map[string]any, len(x)+len(y))
	for k, v := range x {
		m[k] = v
	}
	for k, v := range y {
		if a, ok := m[k].(map[string]any); ok {
			if b, ok := v.(map[string]any); ok {
				m[k] = deepMerge(a, b)
				continue
			}
		}
		m[k] = v
	}
	return m
}

// Negate is unary minus.
func Negate(v any) (any, error) {
	if _, ok := v.(Opaque); ok {
		return nil, unsup("negating a caught error message")
	}
	if n, ok := v.(json.Number); ok && !canonicalSpelling(string(n)) {
		return nil, unsup("negating a number literal with a non-canonical spelling (its text is kept)")
	}
	switch x := norm(v).(type) {
	case int, *big.Int:
		return normBig(new(big.Int).Neg(toBig(x))), nil
	case float64:
		return -x, nil
	}
	return nil, ierr("cannot negate: %s", TypeName(v))
}

// ---- JSON text (for tostring / tojson / interpolation) ----

// ToJSON renders v the way jq prints compact JSON. ok=false when the model
// does not fix the text (floats outside the plain range).
func ToJSON(v any) (string, error) {
	var sb strings.Builder
	if err := writeJSON(&sb, v); err != nil {
		return "", err
	}
	return sb.String(), nil
}

func writeJSON(sb *strings.Builder, v any) error {
	switch x := v.(type) {
	case nil:
		sb.WriteString("null")
	case bool:
		if x {
			sb.WriteString("true")
		} else {
			sb.WriteString("false")
		}
	case int:
		sb.WriteString(strconv.Itoa(x))
	case *big.Int:
		sb.WriteString(x.String())
	case json.Number:
		if !canonicalSpelling(string(x)) {
			return unsup("text of a number literal with a non-canonical spelling")
		}
		sb.WriteString(string(x))
	case float64:
		switch {
		case math.IsNaN(x):
			sb.WriteString("null")
		case math.IsInf(x, 0):
			return unsup("text of an infinite number")
		case x == math.Trunc(x) && math.Abs(x) < 1e15:
			sb.WriteString(strconv.FormatFloat(x, 'f', -1, 64))
		case math.Abs(x) >= 1e-5 && math.Abs(x) < 1e15:
			sb.WriteString(strconv.FormatFloat(x, 'f', -1, 64))
		default:
			return unsup("text of a float outside the plain-notation range")
		}
	case string:
		if !utf8.ValidString(x) {
			return unsup("text of a string with invalid UTF-8")
		}
		writeJSONString(sb, x)
	case Opaque:
		return unsup("text of a caught error message")
	case []any:
		sb.WriteByte('[')
		for i, e := range x {
			if i > 0 {
				sb.WriteByte(',')
			}
			if err := writeJSON(sb, e); err != nil {
				return err
			}
		}
		sb.WriteByte(']')
	case map[string]any:
		sb.WriteByte('{')
		for i, k := range SortedKeys(x) {
			if i > 0 {
				sb.WriteByte(',')
			}
			if !utf8.ValidString(k) {
				return unsup("text of a key with invalid UTF-8")
			}
			writeJSONString(sb, k)
			sb.WriteByte(':')
			if err := writeJSON(sb, x[k]); err != nil {
				return err
			}
		}
		sb.WriteByte('}')
	default:
		return unsup("text of %T", v)
	}
	return nil
}

func writeJSONString(sb *strings.Builder, s string) {
	sb.WriteByte('"')
	for _, r := range s {
		switch {
		case r == '"':
			sb.WriteString(`\"`)
		case r == '\\':
			sb.WriteString(`\\`)
		case r == '\n':
			sb.WriteString(`\n`)
		case r == '\t':
			sb.WriteString(`\t`)
		case r == '\r':
			sb.WriteString(`\r`)
		case r == '\b':
			sb.WriteString(`\b`)
		case r == '\f':
			sb.WriteString(`\f`)
		case r < 0x20 || r == 0x7f:
			fmt.Fprintf(sb, `\u%04x`, r)
		default:
			sb.WriteRune(r) // invalid bytes become U+FFFD via range
		}
	}
	sb.WriteByte('"')
}

// ToString is jq's tostring.
func ToString(v any) (any, error) {
	switch x := v.(type) {
	case string:
		return x, nil
	case Opaque:
		return x, nil
	}
	return ToJSON(v)
}

// Length is jq's length.
func Length(v any) (any, error) {
	switch x := v.(type) {
	case nil:
		return 0, nil
	case bool:
		return nil, ierr("boolean has no length")
	case string:
		return utf8.RuneCountInString(x), nil
	case Opaque:
		return nil, unsup("length of a caught error message")
	case []any:
		return len(x), nil
	case map[string]any:
		return len(x), nil
	}
	if n, ok := v.(json.Number); ok && !canonicalSpelling(string(n)) {
		return nil, unsup("length/abs of a number literal with a non-canonical spelling (its text may be kept)")
	}
	switch x := norm(v).(type) {
	case int, *big.Int:
		return normBig(new(big.Int).Abs(toBig(x))), nil
	case float64:
		return math.Abs(x), nil
	}
	return nil, ierr("no length")
}

// Keys is jq's keys.
func Keys(v any) (any, error) {
	switch x := v.(type) {
	case []any:
		out := make([]any, len(x))
		for i := range x {
			out[i] = i
		}
		return out, nil
	case map[string]any:
		ks := SortedKeys(x)
		out := make([]any, len(ks))
		for i, k := range ks {
			out[i] = k
		}
		return out, nil
	case Opaque:
		return nil, unsup("keys of a caught error message")
	}
	return nil, ierr("%s has no keys", TypeName(v))
}

// SortValues is jq's sort.
func SortValues(xs []any) []any {
	out := append([]any{}, xs...)
	sort.SliceStable(out, func(i, j int) bool { return Cmp(out[i], out[j]) < 0 })
	return out
}
