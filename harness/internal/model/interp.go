package model

import (
	"encoding/json"
	"math"
	"math/big"
	"os"
	"reflect"
	"strconv"
	"strings"
	"sync"

	"github.com/itchyny/gojq"
)

// Reference interpreter M: an AST-walking interpreter in continuation-passing
// style over gojq's *parsed* AST. It shares no code with gojq's compiler or VM.
// See DESIGN.md Appendix A for the semantics it encodes.

type pnode struct {
	parent *pnode
	key    any
}

func (p *pnode) slice() []any {
	var rev []any
	for n := p; n != nil; n = n.parent {
		rev = append(rev, n.key)
	}
	out := make([]any, len(rev))
	for i, k := range rev {
		out[len(rev)-1-i] = k
	}
	return out
}

// pctx is the path-tracking context: the path navigated so far and the value
// last navigated to.
type pctx struct {
	path    *pnode
	tracked any
}

// PV is a value with an optional path context (nil = value mode).
type PV struct {
	V any
	C *pctx
}

type env struct {
	parent *env
	isFunc bool
	name   string
	arity  int
	val    any           // variable value, or constant of a $param closure
	fd     *gojq.FuncDef // definition (closure env is this node)
	q      *gojq.Query   // filter parameter body
	cenv   *env          // filter parameter environment
	constv bool          // $param visible as a filter
}

func (e *env) lookupVar(name string) (any, bool) {
	for n := e; n != nil; n = n.parent {
		if !n.isFunc && n.name == name {
			return n.val, true
		}
	}
	return nil, false
}

func (e *env) lookupFunc(name string, arity int) *env {
	for n := e; n != nil; n = n.parent {
		if n.isFunc && n.name == name && n.arity == arity {
			return n
		}
	}
	return nil
}

// M is one interpreter instance (one run).
type M struct {
	Steps    int64
	MaxSteps int64
	depth    int
	labels   int
	Natives  map[string]Native // extra natives (e.g. custom functions)
}

// Native is a value-level function.
type Native func(in any, args []any) (any, error)

type passErr struct {
	owner *int
	err   error
}

func (p *passErr) Error() string { return p.err.Error() }

func rootErr(err error) error {
	for {
		p, ok := err.(*passErr)
		if !ok {
			return err
		}
		err = p.err
	}
}

func fatal(err error) bool {
	switch rootErr(err).(type) {
	case *Unsupported, *BudgetErr:
		return true
	}
	return false
}

var (
	builtinOnce sync.Once
	builtinDefs map[string]*gojq.FuncDef // key name/arity
	builtinErr  error
)

// BuiltinSource is the path of builtin.jq.
var BuiltinSource = "/repo/builtin.jq"

func loadBuiltins() {
	builtinOnce.Do(func() {
		b, err := os.ReadFile(BuiltinSource)
		if err != nil {
			builtinErr = err
			return
		}
		q, err := gojq.Parse(string(b))
		if err != nil {
			builtinErr = err
			return
		}
		builtinDefs = map[string]*gojq.FuncDef{}
		for _, fd := range q.FuncDefs {
			builtinDefs[fd.Name+"/"+strconv.Itoa(len(fd.Args))] = fd
		}
	})
}

// BuiltinDef returns the builtin.jq definition of name/arity.
func BuiltinDef(name string, arity int) *gojq.FuncDef {
	loadBuiltins()
	return builtinDefs[name+"/"+strconv.Itoa(arity)]
}

// Result is the outcome of a model run.
type Result struct {
	Vals []any
	Err  error // nil: ended normally
}

// Run evaluates q on input with named variables.
func Run(q *gojq.Query, input any, vars map[string]any, maxSteps int64, maxOut int) Result {
	loadBuiltins()
	if builtinErr != nil {
		return Result{Err: unsup("cannot load builtin.jq: %v", builtinErr)}
	}
	m := &M{MaxSteps: maxSteps}
	return m.Run(q, input, vars, maxOut)
}

type limitErr struct{}

func (limitErr) Error() string { return "output limit" }

// Run evaluates with this instance.
func (m *M) Run(q *gojq.Query, input any, vars map[string]any, maxOut int) (res Result) {
	var e *env
	for _, k := range sortedNames(vars) {
		e = &env{parent: e, name: k, val: vars[k]}
	}
	if len(q.Imports) > 0 || q.Meta != nil {
		return Result{Err: unsup("modules")}
	}
	err := m.eval(q, e, PV{V: input}, func(w PV) error {
		res.Vals = append(res.Vals, w.V)
		if maxOut > 0 && len(res.Vals) >= maxOut {
			return limitErr{}
		}
		return nil
	})
	res.Err = rootErr2(err)
	return
}

func rootErr2(err error) error {
	if err == nil {
		return nil
	}
	return rootErr(err)
}

func sortedNames(m map[string]any) []string {
	ks := make([]string, 0, len(m))
	for k := range m {
		ks = append(ks, k)
	}
	for i := 1; i < len(ks); i++ {
		for j := i; j > 0 && ks[j] < ks[j-1]; j-- {
			ks[j], ks[j-1] = ks[j-1], ks[j]
		}
	}
	return ks
}

// charge accounts for the cost of copying a container in the persistent
// reference primitives.
func (m *M) charge(v any) error {
	switch x := v.(type) {
	case []any:
		m.Steps += int64(len(x) / 4)
	case map[string]any:
		m.Steps += int64(len(x) / 4)
	}
	return m.step()
}

func (m *M) step() error {
	m.Steps++
	if m.MaxSteps > 0 && m.Steps > m.MaxSteps {
		return &BudgetErr{}
	}
	return nil
}

// identical is the identity notion of path tracking: same container, or equal
// scalar. Numerically equal numbers of different Go representation are not
// decided by the model.
// distinctButEqual: a container that equals the one at the current location but lives at another address may be the
// location itself handed back by a builtin that had nothing to change (`del(.nokey)`, `. + []`): whether a builtin
// returns its input or a copy is not specified, so the reference interpreter does not decide such cases.
func distinctButEqual(a, b any) error {
	if !ContainsOpaque(a) && !ContainsOpaque(b) && !hasNaN(a) && !hasNaN(b) && Cmp(a, b) == 0 {
		return unsup("an equal container at a different address in a path expression")
	}
	return nil
}

func identical(a, b any) (bool, error) {
	switch x := a.(type) {
	case nil:
		return b == nil, nil
	case bool:
		y, ok := b.(bool)
		return ok && x == y, nil
	case string:
		if _, ok := b.(Opaque); ok {
			return false, unsup("identity of a caught error message")
		}
		y, ok := b.(string)
		return ok && x == y, nil
	case Opaque:
		return false, unsup("identity of a caught error message")
	case []any:
		y, ok := b.([]any)
		if !ok {
			return false, nil
		}
		if reflect.ValueOf(x).Pointer() == reflect.ValueOf(y).Pointer() && len(x) == len(y) {
			return true, nil
		}
		return false, distinctButEqual(a, b)
	case map[string]any:
		y, ok := b.(map[string]any)
		if !ok {
			return false, nil
		}
		if reflect.ValueOf(x).Pointer() == reflect.ValueOf(y).Pointer() && len(x) == len(y) {
			return true, nil
		}
		return false, distinctButEqual(a, b)
	}
	if IsNum(a) {
		if !IsNum(b) {
			return false, nil
		}
		if CmpNum(a, b) != 0 {
			fa, fb := ToFloat(a), ToFloat(b)
			if math.IsNaN(fa) && math.IsNaN(fb) {
				return true, nil
			}
			return false, nil
		}
		if reflect.TypeOf(a) == reflect.TypeOf(b) {
			switch x := a.(type) {
			case int, float64:
				return true, nil
			case json.Number:
				if x == b.(json.Number) {
					return true, nil
				}
			case *big.Int:
				if x == b.(*big.Int) {
					return true, nil
				}
			}
		}
		return false, unsup("identity of equal numbers in different or boxed representations")
	}
	return false, unsup("identity of %T", a)
}

func (m *M) navigate(in PV, key any) (PV, error) {
	w, err := Index(in.V, key)
	if err != nil {
		return PV{}, err
	}
	if in.C == nil {
		return PV{V: w}, nil
	}
	ok, err := identical(in.V, in.C.tracked)
	if err != nil {
		return PV{}, err
	}
	if !ok {
		return PV{}, ierr("invalid path: navigating from a computed value")
	}
	return PV{V: w, C: &pctx{path: &pnode{in.C.path, key}, tracked: w}}, nil
}

func valueMode(in PV) PV { return PV{V: in.V} }

func (m *M) eval(q *gojq.Query, e *env, in PV, emit func(PV) error) error {
	if err := m.step(); err != nil {
		return err
	}
	m.depth++
	defer func() { m.depth-- }()
	if m.depth > 60000 {
		return &BudgetErr{}
	}
	if len(q.FuncDefs) > 0 {
		for _, fd := range q.FuncDefs {
			e = &env{parent: e, isFunc: true, name: fd.Name, arity: len(fd.Args), fd: fd}
		}
	}
	if q.Term != nil {
		return m.evalTerm(q.Term, e, in, emit)
	}
	switch q.Op {
	case gojq.OpPipe:
		if len(q.Patterns) > 0 {
			return m.evalBind(q, e, in, emit)
		}
		return m.eval(q.Left, e, in, func(w PV) error { return m.eval(q.Right, e, w, emit) })
	case gojq.OpComma:
		if err := m.eval(q.Left, e, in, emit); err != nil {
			return err
		}
		return m.eval(q.Right, e, in, emit)
	case gojq.OpAlt:
		found := false
		err := m.eval(q.Left, e, in, func(w PV) error {
			if Truthy(w.V) {
				found = true
				return emit(w)
			}
			return nil
		})
		if err != nil {
			return err
		}
		if found {
			return nil
		}
		return m.eval(q.Right, e, in, emit)
	case gojq.OpAnd, gojq.OpOr:
		return m.eval(q.Left, e, valueMode(in), func(l PV) error {
			if q.Op == gojq.OpAnd && !Truthy(l.V) {
				return emit(PV{V: false, C: in.C})
			}
			if q.Op == gojq.OpOr && Truthy(l.V) {
				return emit(PV{V: true, C: in.C})
			}
			return m.eval(q.Right, e, valueMode(in), func(r PV) error {
				return emit(PV{V: Truthy(r.V), C: in.C})
			})
		})
	case gojq.OpAssign, gojq.OpModify, gojq.OpUpdateAdd, gojq.OpUpdateSub, gojq.OpUpdateMul,
		gojq.OpUpdateDiv, gojq.OpUpdateMod, gojq.OpUpdateAlt:
		return m.evalUpdate(q, e, in, emit)
	case gojq.OpAdd, gojq.OpSub, gojq.OpMul, gojq.OpDiv, gojq.OpMod,
		gojq.OpEq, gojq.OpNe, gojq.OpGt, gojq.OpLt, gojq.OpGe, gojq.OpLe:
		if in.C != nil {
			return unsup("binary operator inside a path expression")
		}
		// right operand in the outer loop
		return m.eval(q.Right, e, in, func(r PV) error {
			return m.eval(q.Left, e, in, func(l PV) error {
				v, err := binop(q.Op, l.V, r.V)
				if err != nil {
					return err
				}
				return emit(PV{V: v})
			})
		})
	}
	return unsup("query operator %v", q.Op)
}

func binop(op gojq.Operator, l, r any) (any, error) {
	switch op {
	case gojq.OpAdd:
		return Arith("+", l, r)
	case gojq.OpSub:
		return Arith("-", l, r)
	case gojq.OpMul:
		return Arith("*", l, r)
	case gojq.OpDiv:
		return Arith("/", l, r)
	case gojq.OpMod:
		return Arith("%", l, r)
	}
	if ContainsOpaque(l) || ContainsOpaque(r) {
		return nil, unsup("comparison with a caught error message")
	}
	if hasNaN(l) || hasNaN(r) {
		return nil, unsup("comparison involving NaN")
	}
	c := Cmp(l, r)
	switch op {
	case gojq.OpEq:
		return c == 0, nil
	case gojq.OpNe:
		return c != 0, nil
	case gojq.OpLt:
		return c < 0, nil
	case gojq.OpLe:
		return c <= 0, nil
	case gojq.OpGt:
		return c > 0, nil
	case gojq.OpGe:
		return c >= 0, nil
	}
	return nil, unsup("operator")
}

func hasNaN(v any) bool {
	switch x := v.(type) {
	case float64:
		return math.IsNaN(x)
	case []any:
		for _, e := range x {
			if hasNaN(e) {
				return true
			}
		}
	case map[string]any:
		for _, e := range x {
			if hasNaN(e) {
				return true
			}
		}
	}
	return false
}

// ---- terms ----

func (m *M) evalTerm(t *gojq.Term, e *env, in PV, emit func(PV) error) error {
	if n := len(t.SuffixList); n > 0 {
		s := t.SuffixList[n-1]
		head := *t
		head.SuffixList = t.SuffixList[:n-1]
		switch {
		case s.Index != nil:
			return m.evalIndex(&head, s.Index, e, in, emit)
		case s.Iter:
			return m.evalTerm(&head, e, in, func(w PV) error { return m.iterate(w, emit) })
		case s.Optional:
			// `t s1…sn ?` makes only the last index/iterate step optional. For an index step `t[k]?` the index
			// expressions are evaluated against the input of the whole term, exactly as in `t[k]` (jq: subexp(k), t,
			// INDEX_OPT), and the errors of t and k are not intercepted.
			if k := len(head.SuffixList); k > 0 {
				last := head.SuffixList[k-1]
				hh := head
				hh.SuffixList = head.SuffixList[:k-1]
				if last.Index != nil {
					return m.evalIndexOpt(&hh, last.Index, e, in, emit, true)
				}
				if last.Iter {
					return m.evalTerm(&hh, e, in, func(w PV) error {
						return m.try(func(em func(PV) error) error { return m.iterate(w, em) }, nil, e, w, emit)
					})
				}
			} else if head.Type == gojq.TermTypeIndex {
				return m.evalIndexOpt(&gojq.Term{Type: gojq.TermTypeIdentity}, head.Index, e, in, emit, true)
			}
			return m.try(func(em func(PV) error) error { return m.evalTerm(&head, e, in, em) }, nil, e, in, emit)
		}
		return unsup("suffix")
	}
	switch t.Type {
	case gojq.TermTypeIdentity:
		return emit(in)
	case gojq.TermTypeRecurse:
		return m.call("recurse", nil, e, in, emit)
	case gojq.TermTypeNull:
		return emit(PV{V: nil, C: in.C})
	case gojq.TermTypeTrue:
		return emit(PV{V: true, C: in.C})
	case gojq.TermTypeFalse:
		return emit(PV{V: false, C: in.C})
	case gojq.TermTypeNumber:
		v, err := parseNumLit(t.Number)
		if err != nil {
			return err
		}
		return emit(PV{V: v, C: in.C})
	case gojq.TermTypeIndex:
		return m.evalIndex(&gojq.Term{Type: gojq.TermTypeIdentity}, t.Index, e, in, emit)
	case gojq.TermTypeFunc:
		return m.call(t.Func.Name, t.Func.Args, e, in, emit)
	case gojq.TermTypeObject:
		return m.evalObject(t.Object, e, in, emit)
	case gojq.TermTypeArray:
		arr := []any{}
		if t.Array.Query != nil {
			if err := m.eval(t.Array.Query, e, valueMode(in), func(w PV) error {
				arr = append(arr, w.V)
				return nil
			}); err != nil {
				return err
			}
		}
		return emit(PV{V: arr, C: in.C})
	case gojq.TermTypeUnary:
		if in.C != nil {
			return unsup("unary operator inside a path expression")
		}
		return m.evalTerm(t.Unary.Term, e, in, func(w PV) error {
			if t.Unary.Op == gojq.OpSub {
				v, err := Negate(w.V)
				if err != nil {
					return err
				}
				return emit(PV{V: v})
			}
			if !IsNum(w.V) {
				return ierr("cannot apply unary plus to %s", TypeName(w.V))
			}
			return emit(PV{V: w.V})
		})
	case gojq.TermTypeFormat:
		if in.C != nil {
			return unsup("format inside a path expression")
		}
		if t.Str == nil {
			v, err := applyFormat(t.Format, in.V)
			if err != nil {
				return err
			}
			return emit(PV{V: v})
		}
		return m.evalString(t.Str, t.Format, e, in, emit)
	case gojq.TermTypeString:
		if in.C != nil && t.Str.Queries != nil {
			return unsup("string interpolation inside a path expression")
		}
		return m.evalString(t.Str, "", e, in, emit)
	case gojq.TermTypeIf:
		return m.evalIf(t.If, e, in, emit)
	case gojq.TermTypeTry:
		var catch *gojq.Query
		hasCatch := t.Try.Catch != nil
		catch = t.Try.Catch
		_ = hasCatch
		return m.try(func(em func(PV) error) error { return m.eval(t.Try.Body, e, in, em) }, catch, e, in, emit)
	case gojq.TermTypeReduce:
		return m.evalReduce(t.Reduce, e, in, emit)
	case gojq.TermTypeForeach:
		return m.evalForeach(t.Foreach, e, in, emit)
	case gojq.TermTypeLabel:
		m.labels++
		id := m.labels
		e2 := &env{parent: e, name: "*label*" + t.Label.Ident, val: id}
		err := m.eval(t.Label.Body, e2, in, emit)
		if b, ok := err.(*BreakErr); ok && b.ID == id {
			return nil
		}
		return err
	case gojq.TermTypeBreak:
		v, ok := e.lookupVar("*label*" + t.Break)
		if !ok {
			return unsup("break without label (compile error)")
		}
		return &BreakErr{v.(int)}
	case gojq.TermTypeQuery:
		return m.eval(t.Query, e, in, emit)
	}
	return unsup("term type %v", t.Type)
}

func parseNumLit(s string) (any, error) {
	if !strings.ContainsAny(s, ".eE") {
		if b, ok := new(big.Int).SetString(s, 10); ok {
			return normBig(b), nil
		}
	}
	f, err := strconv.ParseFloat(s, 64)
	if err != nil && !math.IsInf(f, 0) {
		return nil, unsup("number literal %q", s)
	}
	return f, nil
}

func (m *M) iterate(w PV, emit func(PV) error) error {
	switch x := w.V.(type) {
	case []any:
		if w.C != nil {
			if ok, err := identical(w.V, w.C.tracked); err != nil {
				return err
			} else if !ok {
				return ierr("invalid path on iterating against a computed value")
			}
		}
		for i, v := range x {
			if err := m.step(); err != nil {
				return err
			}
			out := PV{V: v}
			if w.C != nil {
				out.C = &pctx{path: &pnode{w.C.path, i}, tracked: v}
			}
			if err := emit(out); err != nil {
				return err
			}
		}
		return nil
	case map[string]any:
		if w.C != nil {
			if ok, err := identical(w.V, w.C.tracked); err != nil {
				return err
			} else if !ok {
				return ierr("invalid path on iterating against a computed value")
			}
		}
		for _, k := range SortedKeys(x) {
			if err := m.step(); err != nil {
				return err
			}
			v := x[k]
			out := PV{V: v}
			if w.C != nil {
				out.C = &pctx{path: &pnode{w.C.path, k}, tracked: v}
			}
			if err := emit(out); err != nil {
				return err
			}
		}
		return nil
	case Opaque:
		return unsup("iterating a caught error message")
	}
	return ierr("cannot iterate over %s", TypeName(w.V))
}

// evalIndex evaluates head[index]: index expressions in value mode, outer
// loops; the head is navigated in the current mode.
func (m *M) evalIndex(head *gojq.Term, x *gojq.Index, e *env, in PV, emit func(PV) error) error {
	return m.evalIndexOpt(head, x, e, in, emit, false)
}

// evalIndexOpt: index expressions first (outermost loops), then the indexed term, then the navigation step, which is
// the only part under `try` when opt is set.
func (m *M) evalIndexOpt(head *gojq.Term, x *gojq.Index, e *env, in PV, emit func(PV) error, opt bool) error {
	nav := func(key any) error {
		return m.evalTerm(head, e, in, func(w PV) error {
			step := func(em func(PV) error) error {
				out, err := m.navigate(w, key)
				if err != nil {
					return err
				}
				return em(out)
			}
			if opt {
				return m.try(step, nil, e, w, emit)
			}
			return step(emit)
		})
	}
	vin := valueMode(in)
	switch {
	case x.Name != "":
		return nav(x.Name)
	case x.Str != nil:
		return m.evalString(x.Str, "", e, vin, func(k PV) error { return nav(k.V) })
	case !x.IsSlice:
		return m.eval(x.Start, e, vin, func(k PV) error { return nav(k.V) })
	}
	withEnd := func(start any) error {
		if x.End == nil {
			return nav(map[string]any{"start": start, "end": nil})
		}
		return m.eval(x.End, e, vin, func(en PV) error {
			return nav(map[string]any{"start": start, "end": en.V})
		})
	}
	if x.Start == nil {
		return withEnd(nil)
	}
	return m.eval(x.Start, e, vin, func(st PV) error { return withEnd(st.V) })
}

func (m *M) evalString(s *gojq.String, format string, e *env, in PV, emit func(PV) error) error {
	if s.Queries == nil {
		return emit(PV{V: s.Str, C: in.C})
	}
	// left-nested sum of the parts: the last part is the outermost loop
	parts := s.Queries
	var rec func(i int, suffix string) error
	rec = func(i int, suffix string) error {
		if i < 0 {
			return emit(PV{V: suffix})
		}
		p := parts[i]
		if p.Term != nil && p.Term.Str != nil {
			if p.Term.Type == gojq.TermTypeString && p.Term.Str.Queries == nil && len(p.Term.SuffixList) == 0 {
				return rec(i-1, p.Term.Str.Str+suffix)
			}
			if format != "" && format != "@text" {
				return unsup("nested string inside a formatted interpolation")
			}
		}
		return m.eval(p, e, valueMode(in), func(w PV) error {
			var sv any
			var err error
			if format == "" || format == "@text" {
				sv, err = ToString(w.V)
			} else {
				sv, err = applyFormat(format, w.V)
			}
			if err != nil {
				return err
			}
			str, ok := sv.(string)
			if !ok {
				return unsup("interpolating a caught error message")
			}
			return rec(i-1, str+suffix)
		})
	}
	return rec(len(parts)-1, "")
}

func (m *M) evalIf(f *gojq.If, e *env, in PV, emit func(PV) error) error {
	return m.eval(f.Cond, e, valueMode(in), func(c PV) error {
		if Truthy(c.V) {
			return m.eval(f.Then, e, in, emit)
		}
		if len(f.Elif) > 0 {
			return m.evalIf(&gojq.If{Cond: f.Elif[0].Cond, Then: f.Elif[0].Then, Elif: f.Elif[1:], Else: f.Else}, e, in, emit)
		}
		if f.Else != nil {
			return m.eval(f.Else, e, in, emit)
		}
		return emit(in)
	})
}

// try runs body; an error raised by the body itself (not by the consumer of
// its outputs) that is a user or internal error continues with catch.
func (m *M) try(body func(emit func(PV) error) error, catch *gojq.Query, e *env, in PV, emit func(PV) error) error {
	owner := new(int)
	err := body(func(w PV) error {
		if err := emit(w); err != nil {
			return &passErr{owner, err}
		}
		return nil
	})
	if err == nil {
		return nil
	}
	if p, ok := err.(*passErr); ok {
		if p.owner == owner {
			return p.err
		}
		return err
	}
	switch x := err.(type) {
	case *UserErr:
		if catch == nil {
			return nil
		}
		return m.eval(catch, e, PV{V: x.V, C: in.C}, emit)
	case *InternalErr:
		if catch == nil {
			return nil
		}
		return m.eval(catch, e, PV{V: Opaque{}, C: in.C}, emit)
	}
	return err
}

func (m *M) evalObject(o *gojq.Object, e *env, in PV, emit func(PV) error) error {
	vin := valueMode(in)
	type kv struct {
		k string
		v any
	}
	var rec func(i int, acc []kv) error
	rec = func(i int, acc []kv) error {
		if i == len(o.KeyVals) {
			obj := make(map[string]any, len(acc))
			for _, p := range acc { // later duplicates win
				obj[p.k] = p.v
			}
			return emit(PV{V: obj, C: in.C})
		}
		p := o.KeyVals[i]
		withKey := func(key any, defVal func(string) (any, error)) error {
			ks, ok := key.(string)
			if !ok {
				if _, op := key.(Opaque); op {
					return unsup("object key from a caught error message")
				}
				// The key's type is checked when the pair is inserted, i.e. after its
				// value has been evaluated; what happens to the pairs after it is
				// implementation-defined, so only the last pair is decided.
				if i != len(o.KeyVals)-1 {
					return unsup("non-string object key before the last pair")
				}
				if p.Val == nil {
					return ierr("object key must be a string, got %s", TypeName(key))
				}
				return m.eval(p.Val, e, vin, func(PV) error {
					return ierr("object key must be a string, got %s", TypeName(key))
				})
			}
			if p.Val == nil {
				v, err := defVal(ks)
				if err != nil {
					return err
				}
				return rec(i+1, append(acc[:len(acc):len(acc)], kv{ks, v}))
			}
			return m.eval(p.Val, e, vin, func(w PV) error {
				return rec(i+1, append(acc[:len(acc):len(acc)], kv{ks, w.V}))
			})
		}
		field := func(k string) (any, error) { return Index(in.V, k) }
		switch {
		case p.Key != "":
			if p.Key[0] == '$' {
				v, ok := e.lookupVar(p.Key)
				if !ok {
					if p.Key == "$ENV" {
						v = map[string]any{}
					} else {
						return unsup("undefined variable %s", p.Key)
					}
				}
				if p.Val == nil {
					return withKey(p.Key[1:], func(string) (any, error) { return v, nil })
				}
				return withKey(v, nil)
			}
			return withKey(p.Key, field)
		case p.KeyString != nil:
			return m.evalString(p.KeyString, "", e, vin, func(k PV) error { return withKey(k.V, field) })
		case p.KeyQuery != nil:
			return m.eval(p.KeyQuery, e, vin, func(k PV) error { return withKey(k.V, field) })
		}
		return unsup("object key form")
	}
	return rec(0, nil)
}

// ---- bindings ----

func patternVars(p *gojq.Pattern, out []string) []string {
	if p.Name != "" {
		return append(out, p.Name)
	}
	for _, a := range p.Array {
		out = patternVars(a, out)
	}
	for _, o := range p.Object {
		if o.Key != "" && o.Key[0] == '$' {
			out = append(out, o.Key)
		}
		if o.Val != nil {
			out = patternVars(o.Val, out)
		}
	}
	return out
}

// bind matches p against v, generating environments (object keys may be
// generators: first key outermost).
func (m *M) bind(p *gojq.Pattern, v any, e *env, in PV, k func(*env) error) error {
	switch {
	case p.Name != "":
		return k(&env{parent: e, name: p.Name, val: v})
	case len(p.Array) > 0:
		if _, op := v.(Opaque); op {
			return unsup("destructuring a caught error message")
		}
		if v != nil {
			if _, ok := v.([]any); !ok {
				return ierr("cannot destructure %s as an array", TypeName(v))
			}
		}
		var rec func(i int, e *env) error
		rec = func(i int, e *env) error {
			if i == len(p.Array) {
				return k(e)
			}
			el, err := Index(v, i)
			if err != nil {
				return err
			}
			return m.bind(p.Array[i], el, e, in, func(e2 *env) error { return rec(i+1, e2) })
		}
		return rec(0, e)
	case len(p.Object) > 0:
		if _, op := v.(Opaque); op {
			return unsup("destructuring a caught error message")
		}
		var rec func(i int, e *env) error
		rec = func(i int, e *env) error {
			if i == len(p.Object) {
				return k(e)
			}
			po := p.Object[i]
			withKey := func(key any, e *env) error {
				ks, ok := key.(string)
				if !ok {
					if _, op := key.(Opaque); op {
						return unsup("pattern key from a caught error message")
					}
					return ierr("object pattern key must be a string")
				}
				el, err := Index(v, ks)
				if err != nil {
					return err
				}
				if po.Key != "" && po.Key[0] == '$' {
					e = &env{parent: e, name: po.Key, val: el}
				}
				if po.Val == nil {
					return rec(i+1, e)
				}
				return m.bind(po.Val, el, e, in, func(e2 *env) error { return rec(i+1, e2) })
			}
			switch {
			case po.Key != "":
				if po.Key[0] == '$' {
					return withKey(po.Key[1:], e)
				}
				return withKey(po.Key, e)
			case po.KeyString != nil:
				return m.evalString(po.KeyString, "", e, PV{V: v}, func(kp PV) error { return withKey(kp.V, e) })
			case po.KeyQuery != nil:
				// the key expression sees the value being destructured as `.`
				return m.eval(po.KeyQuery, e, PV{V: v}, func(kp PV) error { return withKey(kp.V, e) })
			}
			return unsup("pattern key form")
		}
		return rec(0, e)
	}
	return unsup("empty pattern")
}

func (m *M) evalBind(q *gojq.Query, e *env, in PV, emit func(PV) error) error {
	return m.eval(q.Left, e, valueMode(in), func(w PV) error {
		if len(q.Patterns) == 1 {
			return m.bind(q.Patterns[0], w.V, e, in, func(e2 *env) error { return m.eval(q.Right, e2, in, emit) })
		}
		var all []string
		for _, p := range q.Patterns {
			all = patternVars(p, all)
		}
		for i, p := range q.Patterns {
			e0 := e
			for _, name := range all {
				e0 = &env{parent: e0, name: name, val: nil}
			}
			err := m.bind(p, w.V, e0, in, func(e2 *env) error { return m.eval(q.Right, e2, in, emit) })
			if err == nil {
				return nil
			}
			if fatal(err) {
				return err
			}
			if _, ok := rootErr(err).(*HaltErr); ok {
				return err // halt stops the program; nothing intercepts it
			}
			if _, ok := rootErr(err).(limitErr); ok {
				return err
			}
			if i == len(q.Patterns)-1 {
				return err
			}
			// any error abandons this alternative; outputs already emitted stay
		}
		return nil
	})
}

func (m *M) evalReduce(r *gojq.Reduce, e *env, in PV, emit func(PV) error) error {
	return m.eval(r.Start, e, in, func(s0 PV) error {
		if s0.C != in.C {
			return unsup("reduce/foreach initial value navigates inside a path expression")
		}
		state := s0.V
		err := m.eval(r.Query, e, in, func(w PV) error {
			return m.bind(r.Pattern, w.V, e, in, func(e2 *env) error {
				return m.eval(r.Update, e2, PV{V: state, C: w.C}, func(s PV) error {
					state = s.V
					return nil
				})
			})
		})
		if err != nil {
			return err
		}
		return emit(PV{V: state, C: in.C})
	})
}

func (m *M) evalForeach(f *gojq.Foreach, e *env, in PV, emit func(PV) error) error {
	return m.eval(f.Start, e, in, func(s0 PV) error {
		if s0.C != in.C {
			return unsup("reduce/foreach initial value navigates inside a path expression")
		}
		state := s0.V
		return m.eval(f.Query, e, in, func(w PV) error {
			return m.bind(f.Pattern, w.V, e, in, func(e2 *env) error {
				return m.eval(f.Update, e2, PV{V: state, C: w.C}, func(s PV) error {
					state = s.V
					if f.Extract == nil {
						return emit(s)
					}
					return m.eval(f.Extract, e2, s, emit)
				})
			})
		})
	})
}

// ---- update operators: the defining reductions ----

func (m *M) pathsOf(p *gojq.Query, e *env, v any, k func(path []any) error) error {
	return m.eval(p, e, PV{V: v, C: &pctx{tracked: v}}, func(w PV) error {
		if w.C == nil {
			return unsup("path expression lost its context")
		}
		ok, err := identical(w.V, w.C.tracked)
		if err != nil {
			return err
		}
		if !ok {
			// inside value-producing constructs (object keys, arithmetic operands …) the implementation may or may not
			// track navigation, so the point at which it notices the computed value — inside or outside an enclosing
			// try — is not pinned down by the statement
			if src := p.String(); strings.Contains(src, "try") || strings.Contains(src, "?") {
				return unsup("invalid path inside a path expression that contains try")
			}
			return ierr("invalid path: result is a computed value")
		}
		return k(w.C.path.slice())
	})
}

func (m *M) evalUpdate(q *gojq.Query, e *env, in PV, emit func(PV) error) error {
	if in.C != nil {
		return unsup("update operator inside a path expression")
	}
	switch q.Op {
	case gojq.OpAssign:
		// x as $x | reduce path(p) as $q (.; setpath($q; $x))
		return m.eval(q.Right, e, in, func(x PV) error {
			cur := in.V
			err := m.pathsOf(q.Left, e, in.V, func(path []any) error {
				if err := m.charge(cur); err != nil {
					return err
				}
				u, err := Setpath(cur, path, x.V)
				if err != nil {
					return err
				}
				cur = u
				return nil
			})
			if err != nil {
				return err
			}
			return emit(PV{V: cur})
		})
	case gojq.OpModify:
		return m.modify(q.Left, e, in, emit, func(old any, k func(any) error) error {
			return m.eval(q.Right, e, PV{V: old}, func(w PV) error { return k(w.V) })
		})
	}
	op := map[gojq.Operator]gojq.Operator{gojq.OpUpdateAdd: gojq.OpAdd, gojq.OpUpdateSub: gojq.OpSub, gojq.OpUpdateMul: gojq.OpMul,
		gojq.OpUpdateDiv: gojq.OpDiv, gojq.OpUpdateMod: gojq.OpMod, gojq.OpUpdateAlt: gojq.OpAlt}[q.Op]
	// x as $x | p |= (. op $x)
	return m.eval(q.Right, e, in, func(x PV) error {
		return m.modify(q.Left, e, in, emit, func(old any, k func(any) error) error {
			if op == gojq.OpAlt {
				if Truthy(old) {
					return k(old)
				}
				return k(x.V)
			}
			v, err := binop(op, old, x.V)
			if err != nil {
				return err
			}
			return k(v)
		})
	})
}

type firstOnly struct{}

func (firstOnly) Error() string { return "first output taken" }

// modify implements `p |= f`: paths generated lazily against the original
// input; the first output of f replaces the value; paths whose f is empty are
// deleted together at the end.
func (m *M) modify(p *gojq.Query, e *env, in PV, emit func(PV) error, f func(old any, k func(any) error) error) error {
	cur := in.V
	var del []any
	err := m.pathsOf(p, e, in.V, func(path []any) error {
		if err := m.charge(cur); err != nil {
			return err
		}
		old, err := Getpath(cur, path)
		if err != nil {
			return err
		}
		var nv any
		got := false
		err = f(old, func(v any) error {
			nv, got = v, true
			return firstOnly{}
		})
		if _, ok := err.(firstOnly); ok {
			err = nil
		}
		if err != nil {
			return err
		}
		if !got {
			del = append(del, path)
			return nil
		}
		u, err := Setpath(cur, path, nv)
		if err != nil {
			return err
		}
		cur = u
		return nil
	})
	if err != nil {
		return err
	}
	if len(del) > 0 {
		u, err := Delpaths(cur, del)
		if err != nil {
			return err
		}
		cur = u
	}
	return emit(PV{V: cur})
}

// ---- calls ----

func (m *M) call(name string, args []*gojq.Query, e *env, in PV, emit func(PV) error) error {
	if err := m.step(); err != nil {
		return err
	}
	if name[0] == '$' {
		if v, ok := e.lookupVar(name); ok {
			return emit(PV{V: v, C: in.C})
		}
		if name == "$ENV" {
			return emit(PV{V: map[string]any{}, C: in.C})
		}
		return unsup("undefined variable %s", name)
	}
	if n := e.lookupFunc(name, len(args)); n != nil {
		return m.callNode(n, args, e, in, emit)
	}
	return m.callBuiltin(name, args, e, in, emit)
}

func (m *M) callNode(n *env, args []*gojq.Query, e *env, in PV, emit func(PV) error) error {
	if n.fd == nil {
		// filter parameter or $param-as-filter
		if n.constv {
			return emit(PV{V: n.val, C: in.C})
		}
		return m.eval(n.q, n.cenv, in, emit)
	}
	return m.callDef(n.fd, n, args, e, in, emit)
}

// callDef calls a definition whose closure environment is defEnv. $params are
// evaluated at the call, first $param in the outermost loop.
func (m *M) callDef(fd *gojq.FuncDef, defEnv *env, args []*gojq.Query, e *env, in PV, emit func(PV) error) error {
	ce := defEnv
	for i, a := range fd.Args {
		ce = &env{parent: ce, isFunc: true, name: strings.TrimPrefix(a, "$"), arity: 0, q: args[i], cenv: e}
	}
	var rec func(i int, ce *env) error
	rec = func(i int, ce *env) error {
		for i < len(fd.Args) && fd.Args[i][0] != '$' {
			i++
		}
		if i == len(fd.Args) {
			return m.eval(fd.Body, ce, in, emit)
		}
		a := fd.Args[i]
		return m.eval(args[i], e, valueMode(in), func(w PV) error {
			// def f($x) is sugar for def f(x): x as $x | ...: `x` stays the filter
			c2 := &env{parent: ce, name: a, val: w.V}
			return rec(i+1, c2)
		})
	}
	return rec(0, ce)
}

// natArgs evaluates native arguments as values: last argument outermost.
func (m *M) natArgs(args []*gojq.Query, e *env, in PV, k func([]any) error) error {
	vals := make([]any, len(args))
	var rec func(i int) error
	rec = func(i int) error {
		if i < 0 {
			return k(vals)
		}
		return m.eval(args[i], e, valueMode(in), func(w PV) error {
			vals[i] = w.V
			return rec(i - 1)
		})
	}
	return rec(len(args) - 1)
}

func (m *M) callBuiltin(name string, args []*gojq.Query, e *env, in PV, emit func(PV) error) error {
	key := name + "/" + strconv.Itoa(len(args))
	// special forms
	switch key {
	case "empty/0":
		return nil
	case "error/0":
		return &UserErr{in.V}
	case "error/1":
		return m.eval(args[0], e, valueMode(in), func(w PV) error { return &UserErr{w.V} })
	case "not/0":
		return emit(PV{V: !Truthy(in.V), C: in.C})
	case "path/1":
		return m.pathsOf(args[0], e, in.V, func(path []any) error { return emit(PV{V: path, C: in.C}) })
	case "getpath/1":
		return m.eval(args[0], e, valueMode(in), func(p PV) error {
			path, ok := p.V.([]any)
			if !ok {
				return ierr("getpath needs an array")
			}
			w, err := Getpath(in.V, path)
			if err != nil {
				return err
			}
			if in.C == nil {
				return emit(PV{V: w})
			}
			if ok, err := identical(in.V, in.C.tracked); err != nil {
				return err
			} else if !ok {
				return ierr("invalid path: getpath from a computed value")
			}
			pn := in.C.path
			for _, k := range path {
				pn = &pnode{pn, k}
			}
			return emit(PV{V: w, C: &pctx{path: pn, tracked: w}})
		})
	case "last/1":
		var last PV
		got := false
		if err := m.eval(args[0], e, in, func(w PV) error { last, got = w, true; return nil }); err != nil {
			return err
		}
		if got {
			// the value comes out of a variable: inside a path expression its path context is that of the input
			return emit(PV{V: last.V, C: in.C})
		}
		return nil
	case "_last/1":
		return m.callBuiltin("last", args, e, in, emit)
	case "halt/0":
		return &HaltErr{nil, 0}
	case "halt_error/0":
		return &HaltErr{in.V, 5}
	case "halt_error/1":
		return m.eval(args[0], e, valueMode(in), func(w PV) error {
			if f, isF := w.V.(float64); isF && (math.IsInf(f, 0) || math.IsNaN(f) || f != math.Trunc(f) || math.Abs(f) > 1e9) {
				return unsup("halt_error with a non-integral or huge exit code")
			}
			c, ok, err := idxInt(w.V)
			if err != nil || !ok {
				return ierr("halt_error needs a number")
			}
			return &HaltErr{in.V, c}
		})
	case "env/0":
		return emit(PV{V: map[string]any{}, C: in.C})
	case "debug/0", "stderr/0":
		return emit(in)
	case "debug/1":
		if err := m.eval(args[0], e, valueMode(in), func(PV) error { return nil }); err != nil {
			return err
		}
		return emit(in)
	case "_modify/2":
		return m.evalUpdate(&gojq.Query{Op: gojq.OpModify, Left: args[0], Right: args[1]}, e, in, emit)
	case "_assign/2":
		return m.evalUpdate(&gojq.Query{Op: gojq.OpAssign, Left: args[0], Right: args[1]}, e, in, emit)
	case "_range/3":
		return m.natArgs(args, e, in, func(a []any) error {
			return m.rangeGen(a[0], a[1], a[2], func(v any) error { return emit(PV{V: v, C: in.C}) })
		})
	case "input/0", "inputs/0", "builtins/0", "input_line_number/0", "modulemeta/0", "now/0", "localtime/0", "mktime/0", "gmtime/0",
		"$__loc__/0", "get_search_list/0", "input_filename/0", "splits/1", "splits/2":
		return unsup("builtin %s", key)
	}
	if fd := BuiltinDef(name, len(args)); fd != nil {
		return m.callDef(fd, nil, args, e, in, emit)
	}
	if nat, ok := m.Natives[key]; ok {
		return m.natArgs(args, e, in, func(a []any) error {
			v, err := nat(in.V, a)
			if err != nil {
				return err
			}
			return emit(PV{V: v, C: in.C})
		})
	}
	if nat, ok := natives[key]; ok {
		return m.natArgs(args, e, in, func(a []any) error {
			if ContainsOpaque(in.V) {
				return unsup("builtin %s applied to a caught error message", key)
			}
			for _, x := range a {
				if ContainsOpaque(x) {
					return unsup("builtin %s applied to a caught error message", key)
				}
			}
			if err := m.charge(in.V); err != nil {
				return err
			}
			v, err := nat(in.V, append([]any{}, a...))
			if err != nil {
				return err
			}
			return emit(PV{V: v, C: in.C})
		})
	}
	return unsup("builtin %s", key)
}

func (m *M) rangeGen(start, end, step any, emit func(any) error) error {
	if !IsNum(start) || !IsNum(end) || !IsNum(step) {
		if _, ok := start.(Opaque); ok {
			return unsup("range over a caught error message")
		}
		return ierr("range bounds must be numeric")
	}
	s, en, st := norm(start), norm(end), norm(step)
	if f, ok := en.(float64); ok && math.IsNaN(f) {
		return unsup("range to NaN")
	}
	if isInt(s) && isInt(st) {
		a, c := toBig(s), toBig(st)
		if c.Sign() == 0 {
			return unsup("range with zero step (unbounded)")
		}
		for x := new(big.Int).Set(a); (c.Sign() > 0 && CmpNum(normBig(x), en) < 0) || (c.Sign() < 0 && CmpNum(normBig(x), en) > 0); x = new(big.Int).Add(x, c) {
			if err := m.step(); err != nil {
				return err
			}
			if err := emit(normBig(x)); err != nil {
				return err
			}
		}
		return nil
	}
	return unsup("range with non-integer bounds")
}

// ---- formats ----

var formatHook func(format string, v any) (any, error)

func applyFormat(format string, v any) (any, error) {
	switch format {
	case "@text":
		return ToString(v)
	case "@json":
		return ToJSON(v)
	}
	if formatHook != nil {
		return formatHook(format, v)
	}
	return nil, unsup("format %s", format)
}

var _ = json.Number("")
