package model

import (
	"math"
	"math/big"
	"sort"
	"strconv"
	"strings"
	"unicode/utf8"
)

// Reference implementations of the native builtins the core grammar and
// builtin.jq rely on, written from the jq manual. Each takes the input and the
// already evaluated arguments.

var natives = map[string]Native{}

func init() {
	reg := func(key string, f Native) { natives[key] = f }
	reg("length/0", func(in any, _ []any) (any, error) { return Length(in) })
	reg("utf8bytelength/0", func(in any, _ []any) (any, error) {
		s, ok := in.(string)
		if !ok {
			return nil, ierr("utf8bytelength needs a string")
		}
		return len(s), nil
	})
	reg("keys/0", func(in any, _ []any) (any, error) { return Keys(in) })
	reg("has/1", func(in any, a []any) (any, error) {
		switch x := in.(type) {
		case map[string]any:
			if k, ok := a[0].(string); ok {
				_, ok := x[k]
				return ok, nil
			}
			return nil, ierr("has: object key must be a string")
		case []any:
			if IsNum(a[0]) {
				i, ok, err := idxInt(a[0])
				if err != nil {
					return nil, err
				}
				if ok {
					return 0 <= i && i < len(x), nil
				}
			}
			return nil, ierr("has: array index must be a number")
		case nil:
			return nil, unsup("null | has (jq versions differ)")
		}
		return nil, ierr("has cannot be applied to %s", TypeName(in))
	})
	reg("add/0", func(in any, _ []any) (any, error) {
		var xs []any
		switch x := in.(type) {
		case []any:
			xs = x
		case map[string]any:
			for _, k := range SortedKeys(x) {
				xs = append(xs, x[k])
			}
		default:
			return nil, ierr("add cannot be applied to %s", TypeName(in))
		}
		var acc any
		for _, x := range xs {
			v, err := Arith("+", acc, x)
			if err != nil {
				return nil, err
			}
			acc = v
		}
		// A container result is always a fresh container in gojq (funcAdd copies the first array/object it meets), while
		// `null + x` hands x itself back; with a single non-null element the fold above would return the element itself, and a
		// path expression such as `add(.) |= f` would then be located at the element by coincidence of identity. Whether a
		// builtin returns its input or a copy is not specified (see distinctButEqual), so the model returns a copy and
		// identical() leaves the case undecided.
		switch x := acc.(type) {
		case []any:
			c := make([]any, len(x))
			copy(c, x)
			acc = c
		case map[string]any:
			c := make(map[string]any, len(x))
			for k, v := range x {
				c[k] = v
			}
			acc = c
		}
		return acc, nil
	})
	reg("tostring/0", func(in any, _ []any) (any, error) { return ToString(in) })
	reg("tojson/0", func(in any, _ []any) (any, error) { return ToJSON(in) })
	reg("type/0", func(in any, _ []any) (any, error) { return TypeName(in), nil })
	reg("tonumber/0", func(in any, _ []any) (any, error) {
		if IsNum(in) {
			return in, nil
		}
		s, ok := in.(string)
		if !ok {
			return nil, ierr("tonumber cannot be applied to %s", TypeName(in))
		}
		if !jsonNumberSyntax(s) {
			if _, err := strconv.ParseFloat(strings.TrimSpace(s), 64); err == nil || strings.ContainsAny(s, "nN") {
				return nil, unsup("tonumber on a non-JSON number spelling")
			}
			return nil, ierr("tonumber: not a number")
		}
		return parseNumLit(s)
	})
	reg("reverse/0", func(in any, _ []any) (any, error) {
		switch x := in.(type) {
		case []any:
			out := make([]any, len(x))
			for i, v := range x {
				out[len(x)-1-i] = v
			}
			return out, nil
		case string, nil:
			return nil, unsup("reverse of a string or null (jq versions differ)")
		}
		return nil, ierr("reverse cannot be applied to %s", TypeName(in))
	})
	reg("sort/0", func(in any, _ []any) (any, error) {
		x, ok := in.([]any)
		if !ok {
			return nil, ierr("sort needs an array")
		}
		if hasNaN(x) {
			return nil, unsup("sorting NaN")
		}
		return SortValues(x), nil
	})
	reg("unique/0", func(in any, _ []any) (any, error) {
		x, ok := in.([]any)
		if !ok {
			return nil, ierr("unique needs an array")
		}
		if hasNaN(x) {
			return nil, unsup("sorting NaN")
		}
		s := SortValues(x)
		out := []any{}
		for i, v := range s {
			if i == 0 || Cmp(s[i-1], v) != 0 {
				out = append(out, v)
			}
		}
		return out, nil
	})
	minmax := func(isMin bool) Native {
		return func(in any, _ []any) (any, error) {
			x, ok := in.([]any)
			if !ok {
				return nil, ierr("min/max needs an array")
			}
			if hasNaN(x) {
				return nil, unsup("ordering NaN")
			}
			var best any
			for i, v := range x {
				if i == 0 {
					best = v
					continue
				}
				c := Cmp(v, best)
				if isMin && c < 0 || !isMin && c >= 0 {
					best = v
				}
			}
			return best, nil
		}
	}
	reg("min/0", minmax(true))
	reg("max/0", minmax(false))
	byKeys := func(name string) Native {
		return func(in any, a []any) (any, error) {
			xs, ok1 := in.([]any)
			ks, ok2 := a[0].([]any)
			if !ok1 || !ok2 || len(xs) != len(ks) {
				return nil, ierr("%s needs an array", name)
			}
			if hasNaN(ks) {
				return nil, unsup("ordering NaN")
			}
			type item struct{ v, k any }
			items := make([]item, len(xs))
			for i := range xs {
				items[i] = item{xs[i], ks[i]}
			}
			switch name {
			case "_min_by", "_max_by":
				if len(items) == 0 {
					return nil, nil
				}
				best := items[0]
				for _, it := range items[1:] {
					c := Cmp(it.k, best.k)
					if name == "_min_by" && c < 0 || name == "_max_by" && c >= 0 {
						best = it
					}
				}
				return best.v, nil
			}
			sort.SliceStable(items, func(i, j int) bool { return Cmp(items[i].k, items[j].k) < 0 })
			out := []any{}
			for i, it := range items {
				switch name {
				case "_sort_by":
					out = append(out, it.v)
				case "_group_by":
					if i == 0 || Cmp(items[i-1].k, it.k) != 0 {
						out = append(out, []any{it.v})
					} else {
						out[len(out)-1] = append(out[len(out)-1].([]any), it.v)
					}
				case "_unique_by":
					if i == 0 || Cmp(items[i-1].k, it.k) != 0 {
						out = append(out, it.v)
					}
				}
			}
			return out, nil
		}
	}
	for _, n := range []string{"_min_by", "_max_by", "_sort_by", "_group_by", "_unique_by"} {
		reg(n+"/1", byKeys(n))
	}
	flatten := func(in any, depth float64) (any, error) {
		x, ok := in.([]any)
		if !ok {
			if _, isObj := in.(map[string]any); isObj {
				return nil, unsup("flatten of an object")
			}
			return nil, ierr("flatten needs an array")
		}
		if math.IsNaN(depth) {
			return nil, unsup("flatten by NaN")
		}
		if depth < 0 {
			return nil, ierr("flatten depth must not be negative")
		}
		var rec func(xs []any, d float64, out []any) []any
		rec = func(xs []any, d float64, out []any) []any {
			for _, v := range xs {
				if a, ok := v.([]any); ok && d != 0 {
					out = rec(a, d-1, out)
				} else {
					out = append(out, v)
				}
			}
			return out
		}
		return rec(x, depth, []any{}), nil
	}
	reg("flatten/0", func(in any, _ []any) (any, error) { return flatten(in, 0.5) })
	reg("flatten/1", func(in any, a []any) (any, error) {
		if !IsNum(a[0]) {
			return nil, ierr("flatten depth must be a number")
		}
		return flatten(in, ToFloat(a[0]))
	})
	reg("join/1", func(in any, a []any) (any, error) {
		// def join($x): reduce .[] as $i (null; (if . == null then "" else . + $x end) +
		//   ($i | if type == "boolean" or type == "number" then tojson else . end)) // "";
		var xs []any
		switch x := in.(type) {
		case []any:
			xs = x
		case map[string]any:
			for _, k := range SortedKeys(x) {
				xs = append(xs, x[k])
			}
		default:
			return nil, ierr("join cannot be applied to %s", TypeName(in))
		}
		var acc any
		for _, v := range xs {
			var left any = ""
			if acc != nil {
				l, err := Arith("+", acc, a[0])
				if err != nil {
					return nil, err
				}
				left = l
			}
			if _, isBool := v.(bool); isBool || IsNum(v) {
				t, err := ToJSON(v)
				if err != nil {
					return nil, err
				}
				v = t
			}
			r, err := Arith("+", left, v)
			if err != nil {
				return nil, err
			}
			acc = r
		}
		if !Truthy(acc) {
			return "", nil
		}
		return acc, nil
	})
	reg("split/1", func(in any, a []any) (any, error) {
		s, ok1 := in.(string)
		sep, ok2 := a[0].(string)
		if !ok1 || !ok2 {
			return nil, ierr("split needs strings")
		}
		if sep == "" && !utf8.ValidString(s) {
			return nil, unsup("splitting invalid UTF-8 into characters")
		}
		return splitStr(s, sep), nil
	})
	reg("ascii_downcase/0", func(in any, _ []any) (any, error) {
		s, ok := in.(string)
		if !ok {
			return nil, ierr("ascii_downcase needs a string")
		}
		return strings.Map(func(r rune) rune {
			if 'A' <= r && r <= 'Z' {
				return r + 32
			}
			return r
		}, s), nil
	})
	reg("ascii_upcase/0", func(in any, _ []any) (any, error) {
		s, ok := in.(string)
		if !ok {
			return nil, ierr("ascii_upcase needs a string")
		}
		return strings.Map(func(r rune) rune {
			if 'a' <= r && r <= 'z' {
				return r - 32
			}
			return r
		}, s), nil
	})
	reg("startswith/1", func(in any, a []any) (any, error) {
		s, ok1 := in.(string)
		t, ok2 := a[0].(string)
		if !ok1 || !ok2 {
			return nil, ierr("startswith needs strings")
		}
		return strings.HasPrefix(s, t), nil
	})
	reg("endswith/1", func(in any, a []any) (any, error) {
		s, ok1 := in.(string)
		t, ok2 := a[0].(string)
		if !ok1 || !ok2 {
			return nil, ierr("endswith needs strings")
		}
		return strings.HasSuffix(s, t), nil
	})
	reg("explode/0", func(in any, _ []any) (any, error) {
		s, ok := in.(string)
		if !ok {
			return nil, ierr("explode needs a string")
		}
		if !utf8.ValidString(s) {
			return nil, unsup("explode of invalid UTF-8")
		}
		out := []any{}
		for _, r := range s {
			out = append(out, int(r))
		}
		return out, nil
	})
	reg("setpath/2", func(in any, a []any) (any, error) {
		p, ok := a[0].([]any)
		if !ok {
			return nil, ierr("setpath needs a path array")
		}
		return Setpath(in, p, a[1])
	})
	reg("delpaths/1", func(in any, a []any) (any, error) {
		ps, ok := a[0].([]any)
		if !ok {
			return nil, ierr("delpaths needs an array of paths")
		}
		return Delpaths(in, ps)
	})
	reg("floor/0", func(in any, _ []any) (any, error) {
		if !IsNum(in) {
			return nil, ierr("floor needs a number")
		}
		switch x := norm(in).(type) {
		case int, *big.Int:
			return x, nil
		case float64:
			if math.IsNaN(x) || math.IsInf(x, 0) || math.Abs(x) >= 1<<53 {
				return nil, unsup("floor of a non-finite or huge float")
			}
			return int(math.Floor(x)), nil
		}
		return nil, unsup("floor")
	})
	reg("abs/0", func(in any, _ []any) (any, error) {
		if !IsNum(in) {
			return nil, ierr("abs needs a number")
		}
		return Length(in)
	})
	reg("transpose/0", func(in any, _ []any) (any, error) {
		rows, ok := in.([]any)
		if !ok {
			return nil, ierr("transpose needs an array")
		}
		n := 0
		for _, r := range rows {
			a, ok := r.([]any)
			if !ok {
				return nil, ierr("transpose needs an array of arrays")
			}
			n = max(n, len(a))
		}
		out := make([]any, n)
		for j := 0; j < n; j++ {
			col := make([]any, len(rows))
			for i, r := range rows {
				if a := r.([]any); j < len(a) {
					col[i] = a[j]
				}
			}
			out[j] = col
		}
		return out, nil
	})
	reg("tojson/0", func(in any, _ []any) (any, error) { return ToJSON(in) })
	reg("infinite/0", func(any, []any) (any, error) { return math.Inf(1), nil })
	reg("nan/0", func(any, []any) (any, error) { return math.NaN(), nil })
	reg("isnan/0", func(in any, _ []any) (any, error) {
		if !IsNum(in) {
			return nil, unsup("isnan of a non-number")
		}
		return math.IsNaN(ToFloat(in)), nil
	})
	reg("contains/1", func(in any, a []any) (any, error) {
		if hasNaN(in) || hasNaN(a[0]) {
			return nil, unsup("contains with NaN")
		}
		return containsRef(in, a[0])
	})
	reg("inside/1", func(in any, a []any) (any, error) {
		if hasNaN(in) || hasNaN(a[0]) {
			return nil, unsup("contains with NaN")
		}
		return containsRef(a[0], in)
	})
}

func containsRef(a, b any) (any, error) {
	switch x := a.(type) {
	case map[string]any:
		y, ok := b.(map[string]any)
		if !ok {
			return nil, ierr("contains: type mismatch")
		}
		for k, bv := range y {
			av, ok := x[k]
			if !ok {
				return false, nil
			}
			if c, err := containsRef(av, bv); err != nil || c != true {
				return false, nil
			}
		}
		return true, nil
	case []any:
		y, ok := b.([]any)
		if !ok {
			return nil, ierr("contains: type mismatch")
		}
		for _, bv := range y {
			found := false
			for _, av := range x {
				if c, err := containsRef(av, bv); err == nil && c == true {
					found = true
					break
				}
			}
			if !found {
				return false, nil
			}
		}
		return true, nil
	case string:
		y, ok := b.(string)
		if !ok {
			return nil, ierr("contains: type mismatch")
		}
		return strings.Contains(x, y), nil
	case nil:
		if b == nil {
			return true, nil
		}
		return nil, ierr("contains: type mismatch")
	case bool:
		// jq's kinds: true and false are different kinds
		if y, ok := b.(bool); ok && x == y {
			return true, nil
		}
		return nil, ierr("contains: type mismatch")
	}
	if IsNum(a) && IsNum(b) {
		return CmpNum(a, b) == 0, nil
	}
	return nil, ierr("contains: type mismatch")
}

func jsonNumberSyntax(s string) bool {
	i := 0
	n := len(s)
	if i < n && s[i] == '-' {
		i++
	}
	if i >= n {
		return false
	}
	if s[i] == '0' {
		i++
	} else if s[i] >= '1' && s[i] <= '9' {
		for i < n && s[i] >= '0' && s[i] <= '9' {
			i++
		}
	} else {
		return false
	}
	if i < n && s[i] == '.' {
		i++
		if i >= n || s[i] < '0' || s[i] > '9' {
			return false
		}
		for i < n && s[i] >= '0' && s[i] <= '9' {
			i++
		}
	}
	if i < n && (s[i] == 'e' || s[i] == 'E') {
		i++
		if i < n && (s[i] == '+' || s[i] == '-') {
			i++
		}
		if i >= n || s[i] < '0' || s[i] > '9' {
			return false
		}
		for i < n && s[i] >= '0' && s[i] <= '9' {
			i++
		}
	}
	return i == n
}
