// Package model holds the executable reference models (written from the jq
// manual; shares no code with gojq).
package model

import (
	"encoding/json"
	"math"
	"math/big"
	"sort"
	"strings"
)

func typeRank(v any) int {
	switch v := v.(type) {
	case nil:
		return 0
	case bool:
		if v {
			return 2
		}
		return 1
	case int, float64, *big.Int, json.Number:
		return 3
	case string:
		return 4
	case []any:
		return 5
	case map[string]any:
		return 6
	}
	return 7
}

// numRat converts a number to an exact rational (nil for NaN / infinities).
func numRat(v any) (*big.Rat, float64) {
	switch v := v.(type) {
	case int:
		return new(big.Rat).SetInt64(int64(v)), 0
	case *big.Int:
		return new(big.Rat).SetInt(v), 0
	case float64:
		if math.IsNaN(v) || math.IsInf(v, 0) {
			return nil, v
		}
		r, _ := new(big.Rat).SetString(new(big.Float).SetFloat64(v).Text('f', -1))
		return r, 0
	case json.Number:
		s := string(v)
		if !strings.ContainsAny(s, ".eE") {
			if b, ok := new(big.Int).SetString(s, 10); ok {
				return new(big.Rat).SetInt(b), 0
			}
		}
		// a fraction/exponent literal denotes its double value
		f, err := json.Number(s).Float64()
		if err != nil && !math.IsInf(f, 0) {
			return nil, math.NaN()
		}
		return numRat(f)
	}
	return nil, math.NaN()
}

// CmpNum compares two numbers exactly (-Inf < finite < +Inf; NaN below all,
// as jq sorts it; callers of the order laws exclude NaN).
func CmpNum(a, b any) int {
	ra, fa := numRat(a)
	rb, fb := numRat(b)
	rank := func(r *big.Rat, f float64) int {
		switch {
		case r != nil:
			return 2
		case math.IsNaN(f):
			return 0
		case f < 0:
			return 1
		}
		return 3
	}
	if ka, kb := rank(ra, fa), rank(rb, fb); ka != kb || ka != 2 {
		switch {
		case ka < kb:
			return -1
		case ka > kb:
			return 1
		}
		return 0
	}
	return ra.Cmp(rb)
}

// Cmp is jq's value order written from the manual: null < false < true <
// numbers < strings (by code point) < arrays (lexicographic) < objects
// (first by the sorted key lists, then value by value in key order).
func Cmp(a, b any) int {
	ta, tb := typeRank(a), typeRank(b)
	if ta != tb {
		if ta < tb {
			return -1
		}
		return 1
	}
	switch ta {
	case 3:
		return CmpNum(a, b)
	case 4:
		return strings.Compare(a.(string), b.(string)) // UTF-8 byte order == code point order
	case 5:
		x, y := a.([]any), b.([]any)
		for i := 0; i < len(x) && i < len(y); i++ {
			if c := Cmp(x[i], y[i]); c != 0 {
				return c
			}
		}
		switch {
		case len(x) < len(y):
			return -1
		case len(x) > len(y):
			return 1
		}
		return 0
	case 6:
		x, y := a.(map[string]any), b.(map[string]any)
		kx, ky := SortedKeys(x), SortedKeys(y)
		for i := 0; i < len(kx) && i < len(ky); i++ {
			if c := strings.Compare(kx[i], ky[i]); c != 0 {
				return c
			}
		}
		if len(kx) != len(ky) {
			if len(kx) < len(ky) {
				return -1
			}
			return 1
		}
		for _, k := range kx {
			if c := Cmp(x[k], y[k]); c != 0 {
				return c
			}
		}
		return 0
	}
	return 0
}

// SortedKeys returns the keys in code point order.
func SortedKeys(m map[string]any) []string {
	ks := make([]string, 0, len(m))
	for k := range m {
		ks = append(ks, k)
	}
	sort.Strings(ks)
	return ks
}

// Equal is order equality.
func Equal(a, b any) bool { return Cmp(a, b) == 0 }
