package model

import (
	"bytes"
	"encoding/base64"
	"encoding/json"
	"fmt"
	"io"
	"math"
	"math/big"
	"strings"
	"unicode"
	"unicode/utf8"
)

// More reference functions (used by C03 and by the reference interpreter).
// Written from the jq manual; where the manual is silent and jq versions
// differ, the reference declines (Unsupported) instead of guessing.

func str1(name string, f func(s string) (any, error)) Native {
	return func(in any, _ []any) (any, error) {
		s, ok := in.(string)
		if !ok {
			return nil, ierr("%s needs a string", name)
		}
		return f(s)
	}
}

func mathRef(name string, f func(float64) float64) Native {
	return func(in any, _ []any) (any, error) {
		if !IsNum(in) {
			return nil, ierr("%s needs a number", name)
		}
		return f(ToFloat(in)), nil
	}
}

func mathRef2(name string, f func(a, b float64) float64) Native {
	return func(_ any, a []any) (any, error) {
		if !IsNum(a[0]) || !IsNum(a[1]) {
			return nil, ierr("%s needs numbers", name)
		}
		return f(ToFloat(a[0]), ToFloat(a[1])), nil
	}
}

func indicesRef(in, x any) ([]int, bool, error) {
	switch v := in.(type) {
	case nil:
		return nil, true, nil
	case string:
		t, ok := x.(string)
		if !ok {
			return nil, false, ierr("indices: a string can only be searched for a string")
		}
		if !utf8.ValidString(v) || !utf8.ValidString(t) {
			return nil, false, unsup("indices on invalid UTF-8")
		}
		rs, rt := []rune(v), []rune(t)
		out := []int{}
		if len(rt) == 0 {
			return out, false, nil
		}
		for i := 0; i+len(rt) <= len(rs); i++ {
			if string(rs[i:i+len(rt)]) == t {
				out = append(out, i)
			}
		}
		return out, false, nil
	case []any:
		pat, ok := x.([]any)
		if !ok {
			pat = []any{x}
		}
		out := []int{}
		if len(pat) == 0 {
			return out, false, nil
		}
		if hasNaN(v) || hasNaN(pat) {
			return nil, false, unsup("indices with NaN")
		}
		for i := 0; i+len(pat) <= len(v); i++ {
			if Cmp(v[i:i+len(pat)], pat) == 0 {
				out = append(out, i)
			}
		}
		return out, false, nil
	}
	return nil, false, ierr("indices cannot be applied to %s", TypeName(in))
}

func init() {
	reg := func(key string, f Native) { natives[key] = f }
	trimPre := func(name string, pre, suf bool) Native {
		return func(in any, a []any) (any, error) {
			s, ok1 := in.(string)
			t, ok2 := a[0].(string)
			if !ok1 || !ok2 {
				return nil, unsup("%s on non-strings (jq versions differ: unchanged input or error)", name)
			}
			if pre {
				s = strings.TrimPrefix(s, t)
			}
			if suf {
				s = strings.TrimSuffix(s, t)
			}
			return s, nil
		}
	}
	reg("ltrimstr/1", trimPre("ltrimstr", true, false))
	reg("rtrimstr/1", trimPre("rtrimstr", false, true))
	reg("trimstr/1", trimPre("trimstr", true, true))
	reg("ltrim/0", str1("ltrim", func(s string) (any, error) { return strings.TrimLeftFunc(s, unicode.IsSpace), nil }))
	reg("rtrim/0", str1("rtrim", func(s string) (any, error) { return strings.TrimRightFunc(s, unicode.IsSpace), nil }))
	reg("trim/0", str1("trim", func(s string) (any, error) {
		return strings.TrimRightFunc(strings.TrimLeftFunc(s, unicode.IsSpace), unicode.IsSpace), nil
	}))
	reg("indices/1", func(in any, a []any) (any, error) {
		xs, isNull, err := indicesRef(in, a[0])
		if err != nil {
			return nil, err
		}
		if isNull {
			return nil, nil
		}
		out := make([]any, len(xs))
		for i, x := range xs {
			out[i] = x
		}
		return out, nil
	})
	reg("index/1", func(in any, a []any) (any, error) {
		xs, _, err := indicesRef(in, a[0])
		if err != nil {
			return nil, err
		}
		if len(xs) == 0 {
			return nil, nil
		}
		return xs[0], nil
	})
	reg("rindex/1", func(in any, a []any) (any, error) {
		xs, _, err := indicesRef(in, a[0])
		if err != nil {
			return nil, err
		}
		if len(xs) == 0 {
			return nil, nil
		}
		return xs[len(xs)-1], nil
	})
	reg("implode/0", func(in any, _ []any) (any, error) {
		xs, ok := in.([]any)
		if !ok {
			return nil, ierr("implode needs an array")
		}
		var sb strings.Builder
		for _, x := range xs {
			if !IsNum(x) {
				return nil, ierr("implode needs code points")
			}
			if b, isBig := norm(x).(*big.Int); isBig && b != nil {
				sb.WriteRune(utf8.RuneError) // far outside the code space
				continue
			}
			if f, isF := norm(x).(float64); isF && (math.IsNaN(f) || math.IsInf(f, 0) || math.Abs(f) > 1<<40) {
				if math.IsNaN(f) {
					return nil, unsup("implode of NaN")
				}
				sb.WriteRune(utf8.RuneError)
				continue
			}
			i, ok, err := idxInt(x)
			if err != nil || !ok {
				return nil, unsup("implode of a non-integral code point")
			}
			if 0xD800 <= i && i <= 0xDFFF {
				return nil, unsup("implode of a surrogate code point")
			}
			if i < 0 || i > utf8.MaxRune {
				// outside the code space: the replacement character (pinned by the corpus for -1 and 1114112)
				sb.WriteRune(utf8.RuneError)
				continue
			}
			if f, isF := norm(x).(float64); isF && f != math.Trunc(f) {
				return nil, unsup("implode of a fractional code point")
			}
			sb.WriteRune(rune(i))
		}
		return sb.String(), nil
	})
	reg("toboolean/0", func(in any, _ []any) (any, error) {
		switch v := in.(type) {
		case bool:
			return v, nil
		case string:
			switch v {
			case "true":
				return true, nil
			case "false":
				return false, nil
			}
		}
		return nil, ierr("toboolean: not a boolean")
	})
	reg("fromjson/0", func(in any, _ []any) (any, error) {
		s, ok := in.(string)
		if !ok {
			return nil, ierr("fromjson needs a string")
		}
		d := json.NewDecoder(strings.NewReader(s))
		d.UseNumber()
		var v any
		if err := d.Decode(&v); err != nil {
			if strings.ContainsAny(s, "nN") && (strings.Contains(strings.ToLower(s), "nan") || strings.Contains(strings.ToLower(s), "inf")) {
				return nil, unsup("fromjson of nan/infinity spellings")
			}
			return nil, ierr("fromjson: invalid JSON")
		}
		if _, err := d.Token(); err != io.EOF {
			return nil, ierr("fromjson: trailing text")
		}
		return v, nil
	})
	reg("ascii/0", func(in any, _ []any) (any, error) { return nil, unsup("ascii") })
	reg("isinfinite/0", func(in any, _ []any) (any, error) {
		if !IsNum(in) {
			return nil, unsup("isinfinite of a non-number")
		}
		return math.IsInf(ToFloat(in), 0), nil
	})
	reg("isnormal/0", func(in any, _ []any) (any, error) {
		if !IsNum(in) {
			return nil, unsup("isnormal of a non-number")
		}
		f := ToFloat(in)
		return !(math.IsNaN(f) || math.IsInf(f, 0) || f == 0 || math.Abs(f) < 2.2250738585072014e-308), nil
	})
	reg("isfinite/0", func(in any, _ []any) (any, error) {
		if !IsNum(in) {
			return nil, unsup("isfinite of a non-number")
		}
		return !math.IsInf(ToFloat(in), 0), nil
	})
	for name, f := range map[string]func(float64) float64{
		"ceil": math.Ceil, "round": math.Round, "sqrt": math.Sqrt, "fabs": math.Abs, "trunc": math.Trunc, "exp": math.Exp, "exp2": math.Exp2,
		"log": math.Log, "log2": math.Log2, "log10": math.Log10, "sin": math.Sin, "cos": math.Cos, "tan": math.Tan, "asin": math.Asin, "acos": math.Acos,
		"atan": math.Atan, "sinh": math.Sinh, "cosh": math.Cosh, "tanh": math.Tanh, "cbrt": math.Cbrt, "expm1": math.Expm1, "log1p": math.Log1p,
		"rint": math.RoundToEven, "nearbyint": math.RoundToEven, "exp10": func(x float64) float64 { return math.Pow(10, x) },
		// gamma is the gamma function itself here (pinned by cli/test.yaml "gamma, tgamma, lgamma functions"), not C's
		// log-gamma as in jq
		"gamma": math.Gamma, "lgamma": func(x float64) float64 { v, _ := math.Lgamma(x); return v }, "tgamma": math.Gamma,
	} {
		reg(name+"/0", mathRef(name, f))
	}
	reg("floor/0", mathRef("floor", math.Floor))
	for name, f := range map[string]func(a, b float64) float64{"pow": math.Pow, "atan2": math.Atan2, "fmod": math.Mod, "hypot": math.Hypot, "copysign": math.Copysign, "fdim": math.Dim,
		"fmax": func(a, b float64) float64 {
			switch {
			case math.IsNaN(a):
				return b
			case math.IsNaN(b):
				return a
			}
			return math.Max(a, b)
		},
		"fmin": func(a, b float64) float64 {
			switch {
			case math.IsNaN(a):
				return b
			case math.IsNaN(b):
				return a
			}
			return math.Min(a, b)
		}} {
		reg(name+"/2", mathRef2(name, f))
	}
	// formats
	for _, f := range []string{"@csv", "@tsv", "@html", "@uri", "@sh", "@base64", "@base64d", "@urid"} {
		f := f
		reg("_to"+f[1:]+"/0", func(in any, _ []any) (any, error) { return applyFormat(f, in) })
	}
	reg("format/1", func(in any, a []any) (any, error) {
		s, ok := a[0].(string)
		if !ok {
			return nil, ierr("format needs a string")
		}
		switch "@" + s {
		case "@text", "@json", "@csv", "@tsv", "@html", "@uri", "@urid", "@sh", "@base64", "@base64d":
			return applyFormat("@"+s, in)
		}
		return nil, ierr("unknown format")
	})
	reg("bsearch/1", func(in any, a []any) (any, error) {
		xs, ok := in.([]any)
		if !ok {
			return nil, ierr("bsearch needs an array")
		}
		if hasNaN(xs) || hasNaN(a[0]) {
			return nil, unsup("bsearch with NaN")
		}
		for i := 1; i < len(xs); i++ {
			if Cmp(xs[i-1], xs[i]) > 0 {
				return nil, unsup("bsearch on an unsorted array")
			}
		}
		lo := 0
		for lo < len(xs) && Cmp(xs[lo], a[0]) < 0 {
			lo++
		}
		if lo < len(xs) && Cmp(xs[lo], a[0]) == 0 {
			// any index of an equal element is acceptable; duplicates are left to C11
			if lo+1 < len(xs) && Cmp(xs[lo+1], a[0]) == 0 {
				return nil, unsup("bsearch among duplicates")
			}
			return lo, nil
		}
		return -1 - lo, nil
	})
	reg("significand/0", func(in any, _ []any) (any, error) { return nil, unsup("significand") })
	reg("tojson/0", func(in any, _ []any) (any, error) { return ToJSON(in) })
}

func formatRow(name string, v any, sep string, esc func(string) string, nullText string) (any, error) {
	xs, ok := v.([]any)
	if !ok {
		return nil, ierr("%s needs an array", name)
	}
	parts := make([]string, len(xs))
	for i, x := range xs {
		switch e := x.(type) {
		case nil:
			parts[i] = nullText
		case bool:
			parts[i] = fmt.Sprint(e)
		case string:
			if strings.ContainsRune(e, 0) {
				return nil, unsup("NUL inside a formatted row")
			}
			parts[i] = esc(e)
		case []any, map[string]any:
			return nil, ierr("%s cannot format nested containers", name)
		default:
			if f, ok := norm(x).(float64); ok && math.IsNaN(f) {
				return nil, unsup("NaN inside a formatted row")
			}
			t, err := ToJSON(x)
			if err != nil {
				return nil, err
			}
			parts[i] = t
		}
	}
	return strings.Join(parts, sep), nil
}

func init() {
	formatHook = func(format string, v any) (any, error) {
		text := func() (string, error) {
			s, err := ToString(v)
			if err != nil {
				return "", err
			}
			str, ok := s.(string)
			if !ok {
				return "", unsup("format of a caught error message")
			}
			return str, nil
		}
		switch format {
		case "@csv":
			return formatRow("@csv", v, ",", func(s string) string { return `"` + strings.ReplaceAll(s, `"`, `""`) + `"` }, "")
		case "@tsv":
			return formatRow("@tsv", v, "\t", func(s string) string {
				return strings.NewReplacer("\\", `\\`, "\t", `\t`, "\n", `\n`, "\r", `\r`).Replace(s)
			}, "")
		case "@sh":
			if _, ok := v.([]any); !ok {
				v = []any{v}
			}
			return formatRow("@sh", v, " ", func(s string) string { return "'" + strings.ReplaceAll(s, "'", `'\''`) + "'" }, "null")
		case "@html":
			s, err := text()
			if err != nil {
				return nil, err
			}
			if strings.Contains(s, "'") {
				return nil, unsup("@html of an apostrophe (&#39; vs &apos; differs between jq versions)")
			}
			return strings.NewReplacer("<", "&lt;", ">", "&gt;", "&", "&amp;", `"`, "&quot;").Replace(s), nil
		case "@uri":
			s, err := text()
			if err != nil {
				return nil, err
			}
			var sb strings.Builder
			for _, b := range []byte(s) {
				if 'A' <= b && b <= 'Z' || 'a' <= b && b <= 'z' || '0' <= b && b <= '9' || b == '-' || b == '_' || b == '.' || b == '~' {
					sb.WriteByte(b)
				} else {
					fmt.Fprintf(&sb, "%%%02X", b)
				}
			}
			return sb.String(), nil
		case "@urid":
			s, err := text()
			if err != nil {
				return nil, err
			}
			var out []byte
			for i := 0; i < len(s); i++ {
				if s[i] != '%' {
					out = append(out, s[i])
					continue
				}
				if i+2 >= len(s)+0 && i+2 > len(s)-1 {
					return nil, ierr("@urid: truncated escape")
				}
				var b byte
				if _, err := fmt.Sscanf(s[i+1:i+3], "%02x", &b); err != nil || !isHex(s[i+1]) || !isHex(s[i+2]) {
					return nil, ierr("@urid: bad escape")
				}
				out = append(out, b)
				i += 2
			}
			return string(out), nil
		case "@base64":
			s, err := text()
			if err != nil {
				return nil, err
			}
			return base64.StdEncoding.EncodeToString([]byte(s)), nil
		case "@base64d":
			s, err := text()
			if err != nil {
				return nil, err
			}
			t := strings.TrimRight(s, "=")
			if strings.ContainsRune(t, '=') || len(s)-len(t) > 2 {
				return nil, unsup("@base64d with interior or excess padding")
			}
			b, err := base64.RawStdEncoding.DecodeString(t)
			if err != nil {
				if len(t)%4 == 1 || strings.ContainsFunc(t, func(r rune) bool {
					return !('A' <= r && r <= 'Z' || 'a' <= r && r <= 'z' || '0' <= r && r <= '9' || r == '+' || r == '/')
				}) {
					return nil, unsup("@base64d of text that is not base64 (jq versions differ: error or partial result)")
				}
				return nil, unsup("@base64d with non-canonical trailing bits")
			}
			return string(b), nil
		}
		return nil, unsup("format %s", format)
	}
}

func isHex(b byte) bool {
	return '0' <= b && b <= '9' || 'a' <= b && b <= 'f' || 'A' <= b && b <= 'F'
}

var _ = bytes.NewReader
var _ = big.NewInt
