package gen

import (
	"fmt"
	"math/rand/v2"
	"strings"
)

// G1 generates programs of the core grammar (DESIGN 3.2) as jq text. The
// printer parenthesises every compound operand, so the text does not depend on
// operator precedence. Generation is determined by the PRNG alone.

type g1fn struct {
	name    string
	filters int // number of filter parameters
	values  int // number of $value parameters
	rec     bool
}

// G1 is a generator instance.
type G1 struct {
	R      *rand.Rand
	vars   []string
	labels []string
	funcs  []g1fn
	nvar   int
	nfn    int
	nlab   int
	// Weights: bias toward optimisation preconditions / updates
	Lits    int // extra weight for literal containers
	Updates int // weight of update operators (0 = none: pure C01 grammar)
	Paths   bool
}

// Kind hints.
const (
	kAny = iota
	kNum
	kArr
	kObj
	kStr
	kBool
)

func (g *G1) pick(n int) int { return g.R.IntN(n) }

func (g *G1) oneOf(xs ...string) string { return xs[g.pick(len(xs))] }

var g1Keys = []string{"a", "b", "c"}

func (g *G1) key() string { return g1Keys[g.pick(len(g1Keys))] }

func (g *G1) newVar() string {
	g.nvar++
	names := []string{"$x", "$y", "$z", "$v", "$w"}
	// shadowing is wanted: reuse names often
	return names[g.pick(len(names))]
}

func paren(s string) string { return "(" + s + ")" }

// Program generates a whole program of roughly n nodes.
func (g *G1) Program(depth int) string {
	return g.expr(kAny, depth)
}

func (g *G1) lit(kind int) string {
	switch kind {
	case kNum:
		return g.oneOf("0", "1", "2", "3", "-1", "10", "1.5", "0.5")
	case kStr:
		return g.oneOf(`"a"`, `"b"`, `""`, `"ab"`, `"c"`)
	case kBool:
		return g.oneOf("true", "false", "null")
	case kArr:
		return g.oneOf("[]", "[1]", "[1,2]", "[1,2,3]", "[[1],[2]]", `["a","b"]`, "[0,[1,[2]]]", `[{"a":1},{"a":2}]`, "[null,false,1]", "[3,1,2]")
	case kObj:
		return g.oneOf("{}", `{"a":1}`, `{"a":1,"b":2}`, `{"a":{"b":1}}`, `{"a":[1,2]}`, `{"b":null}`, `{"a":1,"a":2}`)
	}
	return g.lit(1 + g.pick(5))
}

func (g *G1) varRef() (string, bool) {
	if len(g.vars) == 0 {
		return "", false
	}
	return g.vars[g.pick(len(g.vars))], true
}

// expr generates an expression with a kind hint.
func (g *G1) expr(kind, d int) string {
	if d <= 0 {
		return g.leaf(kind)
	}
	// generic (kind-independent) forms
	switch g.pick(26) {
	case 0:
		return g.expr(kAny, d-1) + " | " + g.expr(kind, d-1)
	case 1:
		return paren(g.expr(kind, d-1) + ", " + g.expr(kind, d-1))
	case 2:
		return g.ifExpr(kind, d)
	case 3:
		return g.tryExpr(kind, d)
	case 4:
		return g.bindExpr(kind, d)
	case 5:
		return g.reduceExpr(kind, d)
	case 6:
		return g.foreachExpr(kind, d)
	case 7:
		return g.labelExpr(kind, d)
	case 8:
		return g.defExpr(kind, d)
	case 9:
		if s, ok := g.callExpr(d); ok {
			return s
		}
	case 10:
		return paren(g.expr(kind, d-1) + " // " + g.expr(kind, d-1))
	case 11:
		return g.helper(kind, d)
	case 12:
		if g.Updates > 0 {
			return g.updateExpr(d)
		}
	case 13:
		if len(g.labels) > 0 && g.pick(3) == 0 {
			return "break " + g.labels[g.pick(len(g.labels))]
		}
	case 14:
		return g.access(d) + g.oneOf("", "", "?")
	}
	switch kind {
	case kNum:
		switch g.pick(8) {
		case 0, 1:
			return paren(g.expr(kNum, d-1) + g.oneOf(" + ", " - ", " * ", " + ", " - ") + g.expr(kNum, d-1))
		case 2:
			return paren(g.expr(kNum, d-1) + g.oneOf(" / ", " % ") + g.oneOf("2", "3", "-2", g.expr(kNum, d-1)))
		case 3:
			return paren(g.expr(kAny, d-1) + " | length")
		case 4:
			return "-" + paren(g.expr(kNum, d-1))
		case 5:
			return paren(g.expr(kArr, d-1) + " | add")
		}
		return g.leaf(kNum)
	case kStr:
		switch g.pick(7) {
		case 0:
			return g.interp(d)
		case 1:
			return paren(g.expr(kStr, d-1) + " + " + g.expr(kStr, d-1))
		case 2:
			return paren(g.expr(kAny, d-1) + " | " + g.oneOf("tostring", "tojson", "type", "@json", "@text"))
		case 3:
			return g.oneOf("@json ", "@text ", "") + g.interp(d)
		}
		return g.leaf(kStr)
	case kBool:
		switch g.pick(7) {
		case 0, 1:
			return paren(g.expr(kNum, d-1) + g.oneOf(" == ", " != ", " < ", " <= ", " > ", " >= ") + g.expr(kNum, d-1))
		case 2:
			return paren(g.expr(kBool, d-1) + g.oneOf(" and ", " or ") + g.expr(kBool, d-1))
		case 3:
			return paren(g.expr(kAny, d-1) + " | not")
		case 4:
			return paren(g.expr(kAny, d-1) + g.oneOf(" == ", " != ", " < ") + g.expr(kAny, d-1))
		case 5:
			return paren(g.expr(kObj, d-1) + " | has(" + fmt.Sprintf("%q", g.key()) + ")")
		}
		return g.leaf(kBool)
	case kArr:
		switch g.pick(9 + g.Lits) {
		case 0, 1:
			return "[" + g.expr(kAny, d-1) + "]"
		case 2:
			return paren(g.expr(kArr, d-1) + g.oneOf(" + ", " - ") + g.expr(kArr, d-1))
		case 3:
			return paren(g.expr(kObj, d-1) + " | keys")
		case 4:
			return paren(g.expr(kArr, d-1) + " | " + g.oneOf("map(. + 1)", "map(select(. != null))", "sort", "reverse", "map(.)", "[.[] | tostring]"))
		case 5:
			return "[" + g.expr(kAny, d-1) + ", " + g.expr(kAny, d-1) + "]"
		case 6:
			return "[]"
		case 7:
			return "[range(" + g.oneOf("3", "0", "2", g.expr(kNum, d-1)) + ")]"
		case 8:
			return paren(g.expr(kArr, d-1) + " | .[" + g.oneOf("1:", ":1", "0:2", ":-1", "1:2") + "]")
		}
		return g.constContainer(kArr, d)
	case kObj:
		switch g.pick(6 + g.Lits) {
		case 0, 1, 2:
			return g.objExpr(d)
		case 3:
			return paren(g.expr(kObj, d-1) + g.oneOf(" + ", " * ") + g.expr(kObj, d-1))
		case 4:
			return "{}"
		case 5:
			return paren(g.expr(kObj, d-1) + " | " + g.oneOf("with_entries(.)", "to_entries | from_entries", "map_values(.)"))
		}
		return g.constContainer(kObj, d)
	}
	return g.expr(1+g.pick(5), d)
}

// constContainer emits literal containers of many shapes (constant-folding
// preconditions): all-constant, one non-constant element, duplicate keys...
func (g *G1) constContainer(kind, d int) string {
	if kind == kArr {
		n := g.pick(4)
		parts := make([]string, n)
		for i := range parts {
			switch g.pick(8) {
			case 0:
				parts[i] = g.leaf(kAny) // maybe non-constant
			case 1:
				parts[i] = g.lit(kArr)
			case 2:
				parts[i] = g.lit(kObj)
			case 3:
				parts[i] = "-" + g.oneOf("1", "2", "0.5")
			default:
				parts[i] = g.lit(kAny)
			}
		}
		return "[" + strings.Join(parts, ", ") + "]"
	}
	n := g.pick(4)
	parts := make([]string, n)
	for i := range parts {
		k := g.key()
		var v string
		switch g.pick(7) {
		case 0:
			v = g.leaf(kAny)
		case 1:
			v = g.lit(kArr)
		case 2:
			v = g.lit(kObj)
		default:
			v = g.lit(kAny)
		}
		switch g.pick(6) {
		case 0:
			parts[i] = fmt.Sprintf("%q: %s", k, v)
		case 1:
			parts[i] = fmt.Sprintf("(%q): %s", k, v)
		default:
			parts[i] = k + ": " + v
		}
	}
	return "{" + strings.Join(parts, ", ") + "}"
}

func (g *G1) leaf(kind int) string {
	switch g.pick(8) {
	case 0, 1:
		return "."
	case 2:
		if v, ok := g.varRef(); ok {
			return v
		}
	case 3:
		return g.access(0)
	case 4:
		if s, ok := g.callExpr(0); ok {
			return s
		}
	}
	return g.lit(kind)
}

// access generates navigation from `.`
func (g *G1) access(d int) string {
	var sb strings.Builder
	n := 1 + g.pick(2)
	first := true
	for i := 0; i < n; i++ {
		switch g.pick(9) {
		case 0, 1, 2:
			sb.WriteString("." + g.key())
		case 3:
			if first {
				sb.WriteString(".")
			}
			sb.WriteString("[" + g.oneOf("0", "1", "-1", "2") + "]")
		case 4:
			if first {
				sb.WriteString(".")
			}
			sb.WriteString("[]")
		case 5:
			if first {
				sb.WriteString(".")
			}
			sb.WriteString("[" + g.oneOf("1:", ":1", "0:2", ":-1", "1:2", "-2:") + "]")
		case 6:
			if first {
				sb.WriteString(".")
			}
			sb.WriteString(fmt.Sprintf("[%q]", g.key()))
		case 7:
			if first {
				sb.WriteString(".")
			}
			if d > 0 {
				sb.WriteString("[" + g.expr(kAny, d-1) + "]")
			} else if v, ok := g.varRef(); ok {
				sb.WriteString("[" + v + "]")
			} else {
				sb.WriteString("[0]")
			}
		case 8:
			if first {
				sb.WriteString(".")
			}
			sb.WriteString("[]?")
		}
		first = false
	}
	return sb.String()
}

func (g *G1) ifExpr(kind, d int) string {
	s := "if " + g.expr(kBool, d-1) + " then " + g.expr(kind, d-1)
	if g.pick(4) == 0 {
		s += " elif " + g.expr(kBool, d-1) + " then " + g.expr(kind, d-1)
	}
	if g.pick(5) > 0 {
		s += " else " + g.expr(kind, d-1)
	}
	return s + " end"
}

func (g *G1) tryExpr(kind, d int) string {
	body := g.expr(kind, d-1)
	if g.pick(3) == 0 {
		body = paren(body + ", error(" + g.expr(kAny, d-1) + ")")
	}
	switch g.pick(4) {
	case 0:
		return "try " + paren(body)
	case 1:
		return paren(body) + "?"
	}
	return "try " + paren(body) + " catch " + paren(g.expr(kind, d-1))
}

func (g *G1) pattern(depth int, bound *[]string) string {
	switch {
	case depth > 0 && g.pick(3) == 0:
		n := 1 + g.pick(2)
		parts := make([]string, n)
		for i := range parts {
			parts[i] = g.pattern(depth-1, bound)
		}
		return "[" + strings.Join(parts, ", ") + "]"
	case depth > 0 && g.pick(3) == 0:
		n := 1 + g.pick(2)
		parts := make([]string, n)
		for i := range parts {
			switch g.pick(5) {
			case 0:
				v := g.newVar()
				*bound = append(*bound, v)
				parts[i] = v // {$x}
			case 1:
				parts[i] = fmt.Sprintf("%q: %s", g.key(), g.pattern(depth-1, bound))
			case 2:
				parts[i] = fmt.Sprintf("(%q): %s", g.key(), g.pattern(depth-1, bound))
			case 3:
				v := g.newVar()
				*bound = append(*bound, v)
				parts[i] = v + ": " + g.pattern(depth-1, bound)
			default:
				parts[i] = g.key() + ": " + g.pattern(depth-1, bound)
			}
		}
		return "{" + strings.Join(parts, ", ") + "}"
	}
	v := g.newVar()
	*bound = append(*bound, v)
	return v
}

func (g *G1) bindExpr(kind, d int) string {
	src := g.expr(kAny, d-1)
	var bound []string
	pats := []string{g.pattern(2, &bound)}
	if g.pick(3) == 0 {
		for i, n := 0, 1+g.pick(2); i < n; i++ {
			pats = append(pats, g.pattern(2, &bound))
		}
	}
	save := len(g.vars)
	g.vars = append(g.vars, bound...)
	body := g.expr(kind, d-1)
	g.vars = g.vars[:save]
	return paren(src + " as " + strings.Join(pats, " ?// ") + " | " + body)
}

func (g *G1) reduceExpr(kind, d int) string {
	src := g.expr(kAny, d-1)
	var bound []string
	pat := g.pattern(1, &bound)
	init := g.expr(kind, d-1)
	save := len(g.vars)
	g.vars = append(g.vars, bound...)
	upd := g.expr(kind, d-1)
	g.vars = g.vars[:save]
	return "reduce " + paren(src) + " as " + pat + " (" + init + "; " + upd + ")"
}

func (g *G1) foreachExpr(kind, d int) string {
	src := g.expr(kAny, d-1)
	var bound []string
	pat := g.pattern(1, &bound)
	init := g.expr(kind, d-1)
	save := len(g.vars)
	g.vars = append(g.vars, bound...)
	upd := g.expr(kind, d-1)
	s := "foreach " + paren(src) + " as " + pat + " (" + init + "; " + upd
	if g.pick(2) == 0 {
		s += "; " + g.expr(kind, d-1)
	}
	g.vars = g.vars[:save]
	return s + ")"
}

func (g *G1) labelExpr(kind, d int) string {
	g.nlab++
	l := g.oneOf("$out", "$l", "$m")
	g.labels = append(g.labels, l)
	body := g.expr(kind, d-1)
	if g.pick(2) == 0 {
		body = paren(body + ", break " + l + ", " + g.expr(kind, d-1))
	}
	g.labels = g.labels[:len(g.labels)-1]
	return paren("label " + l + " | " + body)
}

// defExpr defines a local function (filter and $value parameters, recursion
// bounded by a decreasing counter, shadowing) and uses it.
func (g *G1) defExpr(kind, d int) string {
	g.nfn++
	name := g.oneOf("f", "g", "h", "f")
	fn := g1fn{name: name, filters: g.pick(3), values: 0}
	if g.pick(2) == 0 {
		fn.values = g.pick(3)
	}
	if fn.filters+fn.values > 3 {
		fn.values = 0
	}
	var params []string
	saveV, saveF := len(g.vars), len(g.funcs)
	pnames := []string{"p", "q", "r"}
	for i := 0; i < fn.filters; i++ {
		params = append(params, pnames[i])
		g.funcs = append(g.funcs, g1fn{name: pnames[i]})
	}
	vnames := []string{"$m", "$n", "$k"}
	for i := 0; i < fn.values; i++ {
		params = append(params, vnames[i])
		g.vars = append(g.vars, vnames[i])
		if g.pick(2) == 0 { // $n is also visible as the filter n
			g.funcs = append(g.funcs, g1fn{name: vnames[i][1:]})
		}
	}
	var body string
	if g.pick(3) == 0 && fn.filters+fn.values == 0 {
		// recursion bounded by a decreasing counter carried in `.`
		fn.rec = true
		step := g.oneOf(". - 1", ". - 2")
		switch g.pick(4) {
		case 0:
			body = "if (type == \"number\" and . > 0) then (" + step + " | " + name + ") else " + g.expr(kind, d-2) + " end"
		case 1:
			body = "if (type == \"number\" and . > 0) then (., (" + step + " | " + name + ")) else empty end"
		case 2:
			body = "if (type != \"number\" or . <= 0) then . else (" + step + ") | " + name + " end"
		default:
			body = "def " + name + "2: if (type == \"number\" and . > 0) then (" + step + " | " + name + "2) else . end; " + name + "2"
		}
	} else {
		g.funcs = append(g.funcs, fn) // visible in its own body (non-recursive use is filtered below)
		g.funcs = g.funcs[:len(g.funcs)-1]
		body = g.expr(kind, d-1)
	}
	g.vars, g.funcs = g.vars[:saveV], g.funcs[:saveF]
	sig := name
	if len(params) > 0 {
		sig += "(" + strings.Join(params, "; ") + ")"
	}
	g.funcs = append(g.funcs, fn)
	rest := g.expr(kind, d-1)
	if g.pick(2) == 0 {
		if c, ok := g.callOf(fn, d-1); ok {
			rest = paren(c + g.oneOf(" | ", ", ") + rest)
		}
	}
	g.funcs = g.funcs[:saveF]
	return paren("def " + sig + ": " + body + "; " + rest)
}

func (g *G1) callOf(fn g1fn, d int) (string, bool) {
	if fn.filters+fn.values == 0 {
		if fn.rec {
			return paren(g.oneOf("3", "2", "1", "5") + " | " + fn.name), true
		}
		return fn.name, true
	}
	var args []string
	for i := 0; i < fn.filters; i++ {
		args = append(args, g.expr(kAny, max(d, 0)))
	}
	for i := 0; i < fn.values; i++ {
		args = append(args, g.expr(kAny, max(d, 0)))
	}
	return fn.name + "(" + strings.Join(args, "; ") + ")", true
}

func (g *G1) callExpr(d int) (string, bool) {
	if len(g.funcs) == 0 {
		return "", false
	}
	return g.callOf(g.funcs[g.pick(len(g.funcs))], d-1)
}

func (g *G1) interp(d int) string {
	n := 1 + g.pick(2)
	var sb strings.Builder
	sb.WriteByte('"')
	for i := 0; i < n; i++ {
		sb.WriteString(g.oneOf("", "a", "x ", "-"))
		sb.WriteString(`\(` + g.expr(kAny, d-1) + `)`)
	}
	sb.WriteString(g.oneOf("", "z"))
	sb.WriteByte('"')
	return sb.String()
}

func (g *G1) objExpr(d int) string {
	n := 1 + g.pick(3)
	parts := make([]string, n)
	for i := range parts {
		switch g.pick(9) {
		case 0:
			if v, ok := g.varRef(); ok {
				parts[i] = v // {$x}
				continue
			}
			fallthrough
		case 1:
			parts[i] = g.key() // {a}
		case 2:
			parts[i] = "(" + g.expr(kStr, d-1) + "): " + g.expr(kAny, d-1)
		case 3:
			parts[i] = g.interp(d-1) + ": " + g.expr(kAny, d-1)
		case 4:
			parts[i] = fmt.Sprintf("%q: %s", g.key(), g.expr(kAny, d-1))
		case 5:
			parts[i] = fmt.Sprintf("%q", g.key()) // {"a"}
		case 6:
			if v, ok := g.varRef(); ok {
				parts[i] = v + ": " + g.expr(kAny, d-1) // key is the variable's value
				continue
			}
			fallthrough
		default:
			parts[i] = g.key() + ": " + paren(g.expr(kAny, d-1))
		}
	}
	return "{" + strings.Join(parts, ", ") + "}"
}

// helper: jq-defined helpers named by the property.
func (g *G1) helper(kind, d int) string {
	e := func(k int) string { return g.expr(k, d-1) }
	switch g.pick(20) {
	case 0:
		return "first(" + e(kind) + ")"
	case 1:
		return "limit(" + g.oneOf("0", "1", "2", "3", e(kNum)) + "; " + e(kind) + ")"
	case 2:
		return paren(e(kind) + " | select(" + e(kBool) + ")")
	case 3:
		return "[recurse(if (type == \"number\" and . < 3) then . + 1 else empty end)]"
	case 4:
		return "range(" + g.oneOf("0", "2", "3", e(kNum)) + g.oneOf("", "; "+g.oneOf("4", "1", e(kNum))) + ")"
	case 5:
		return "isempty(" + e(kAny) + ")"
	case 6:
		return paren(e(kArr) + " | map(" + e(kAny) + ")")
	case 7:
		return paren(e(kArr) + " | add")
	case 8:
		return g.oneOf("any", "all") + "(" + e(kAny) + "; " + e(kBool) + ")"
	case 9:
		return paren(e(kNum) + " | until(. > 5 or . < -5; . + " + g.oneOf("1", "2", "3") + ")")
	case 10:
		return paren(e(kNum) + " | [while(. < 4 and . > -4; . + " + g.oneOf("1", "2") + ")]")
	case 11:
		return "[limit(" + g.oneOf("2", "3", "0") + "; repeat(" + e(kind) + "))]"
	case 12:
		return "[" + e(kAny) + " | recurse]"
	case 13:
		return "[" + e(kAny) + " | ..]"
	case 14:
		return "last(" + e(kind) + ")"
	case 15:
		return "nth(" + g.oneOf("0", "1", "2") + "; " + e(kind) + ")"
	case 16:
		return paren(e(kAny) + " | " + g.oneOf("length", "type", "keys", "tostring", "tojson", "not", "add", "reverse", "sort", "min", "max", "flatten", "to_entries", "any", "all", "first", "last", "values", "nulls", "arrays", "objects", "scalars", "numbers", "strings", "booleans"))
	case 17:
		return "error(" + e(kAny) + ")"
	case 18:
		return "empty"
	default:
		return paren(e(kAny) + " | recurse(" + g.oneOf(".[]?", ".a?", ".[0]?", "if type == \"array\" then .[1:] | select(length > 0) else empty end") + "; " + g.oneOf("true", ". != null", "type != \"number\"") + ")")
	}
}

// pathExpr generates a path-safe expression (G2).
func (g *G1) pathExpr(d int) string {
	if d <= 0 {
		return g.pathAtom()
	}
	switch g.pick(17) {
	case 0, 1:
		return g.pathExpr(d-1) + " | " + g.pathExpr(d-1)
	case 2:
		return paren(g.pathExpr(d-1) + ", " + g.pathExpr(d-1))
	case 3:
		return paren(g.pathExpr(d-1) + " | select(" + g.cond(d-1) + ")")
	case 4:
		return "if " + g.cond(d-1) + " then " + g.pathExpr(d-1) + " else " + g.pathExpr(d-1) + " end"
	case 5:
		return paren(g.pathExpr(d-1) + " // " + g.pathExpr(d-1))
	case 6:
		return "first(" + g.pathExpr(d-1) + ")"
	case 7:
		return "limit(" + g.oneOf("1", "2", "0") + "; " + g.pathExpr(d-1) + ")"
	case 8:
		return g.oneOf("..", "recurse", "recurse(.[]?)", "recurse(.a?; . != null)", ".[]?", "recurse(.[]?; . != null)")
	case 9:
		return "getpath(" + g.oneOf(`["a"]`, `[0]`, `["a","b"]`, `[1,0]`, `[]`, `["a",0]`) + ")"
	case 10:
		return g.oneOf("empty", "error(\"x\")", ".")
	case 11:
		return paren(g.pathExpr(d-1)) + "?"
	case 12:
		v := g.newVar()
		g.vars = append(g.vars, v)
		s := paren(paren(g.expr(kAny, 1)) + " as " + v + " | " + g.pathExpr(d-1))
		g.vars = g.vars[:len(g.vars)-1]
		return s
	case 13:
		// destructuring bind at path level; the source may be the bare identity (which compiles to no code at all)
		v := g.newVar()
		g.vars = append(g.vars, v)
		src := g.oneOf(".", ".", ".a", "first(.)", ".[0]", "(.)", ". | .", paren(g.expr(kAny, 1)))
		pat := g.oneOf("["+v+"]", "{a: "+v+"}", "{"+v+"}", "[[ "+v+"]]", "{\"a\": ["+v+"]}", "[$q0, "+v+"]", "{a: {b: "+v+"}}", "["+v+"] ?// "+v, "{a: "+v+"} ?// ["+v+"] ?// "+v)
		body := g.oneOf(".", ".["+v+"]?", ".["+v+"]", "getpath(["+v+"])?", g.pathExpr(d-1), g.pathExpr(d-1), ".a, .["+v+"]?")
		s := paren(src + " as " + pat + " | " + body)
		g.vars = g.vars[:len(g.vars)-1]
		return s
	// reduce/foreach are deliberately absent: the state of a fold is carried in a variable, not on the path stack, so they
	// are outside the path-safe grammar (jq 1.6 gives the same answers as gojq there)
	case 14:
		switch g.pick(4) {
		case 0:
			return paren("def pf: " + g.pathExpr(d-1) + "; pf")
		case 1:
			return paren("label $pl | (" + g.pathExpr(d-1) + ", break $pl, " + g.pathExpr(d-1) + ")")
		case 2:
			// the catch body receives the error message, which is not a location of the input: it yields nothing here
			return paren("try " + paren(g.pathExpr(d-1)) + " catch empty")
		default:
			return paren("def pf(p): p | " + g.pathExpr(d-1) + "; pf(" + g.pathExpr(d-1) + ")")
		}
	}
	return g.pathAtom()
}

var g1PathAtoms = []string{
	".a", ".b", ".c", ".a.b", ".a.a", ".a[0]", ".a[1]", ".[0]", ".[1]", ".[2]", ".[-1]", ".[0][0]", ".[0].a", ".[1:]", ".[:1]", ".[0:2]", ".[1:2]", ".[-1:]",
	".[]", ".a[]", ".[][]", ".[].a", ".[1:][0]", ".[0:1][1]", ".[:2][1:]", ".a[1:]", ".a.b.c", ".[\"a\"]", ".a?", ".[]?", ".[0]?", ".", ".[1:][1:]", ".a[0:1]", ".b[0]", ".b.a",
}

func (g *G1) pathAtom() string { return g1PathAtoms[g.pick(len(g1PathAtoms))] }

// PathAtoms exposes the atom pool.
func PathAtoms() []string { return g1PathAtoms }

func (g *G1) cond(d int) string {
	return g.oneOf("true", "false", ". != null", "type == \"number\"", "type == \"array\"", "type == \"object\"", ". == 1", "length > 1", "(type == \"number\") and . > 1", "has(\"a\")?", ". == 2", "type != \"object\"")
}

var g1UpdateBodies = []string{".", "[., .]", "[.]", "{a: .}", ".[1:]?", "7", ". + 1", "empty", "(1, 2)", "error(\"u\")", "null", ".a?", "[.[]?]", "{b: ., c: .}", "if type == \"number\" then . + 1 else . end", "tostring", "length", "(.. | numbers) |= . + 1", "first(.[]?)", "[]", "{}",
	// bodies that themselves delete (an update that yields nothing inside an update that may yield nothing)
	"(.[]? |= empty)", "(.a? |= empty)", "map_values(empty)?", "if type == \"number\" then empty else (.[]? |= empty) end", "del(.[0]?)", "(.[]? | select(. == 1)) |= empty", "select(type != \"number\")"}

// UpdateBodies exposes the update-body pool.
func UpdateBodies() []string { return g1UpdateBodies }

func (g *G1) updateExpr(d int) string {
	p := g.pathExpr(min(d, 2))
	switch g.pick(8) {
	case 0, 1, 2:
		return paren(paren(p) + " |= " + paren(g1UpdateBodies[g.pick(len(g1UpdateBodies))]))
	case 3:
		return paren(paren(p) + " = " + paren(g.expr(kAny, 1)))
	case 4:
		return paren(paren(p) + g.oneOf(" += ", " -= ", " *= ", " //= ") + paren(g.expr(kAny, 1)))
	case 5:
		return "del(" + p + ")"
	case 6:
		return paren("[paths]") // paths under value semantics
	}
	return paren("path(" + p + ")")
}

// PathProgram generates a path-safe expression.
func (g *G1) PathProgram(d int) string { return g.pathExpr(d) }

// UpdateProgram generates an update/delete program.
func (g *G1) UpdateProgram(d int) string { return g.updateExpr(d) }
