// Package gen holds the value universes and program generators.
package gen

import (
	"encoding/json"
	"math"
	"math/big"
	"math/rand/v2"
	"strconv"
)

func big_(s string) *big.Int {
	b, ok := new(big.Int).SetString(s, 10)
	if !ok {
		panic(s)
	}
	return b
}

// A is shorthand for []any.
type A = []any

// O is shorthand for map[string]any.
type O = map[string]any

// USmall is the small universe used by program-level monitors: every core
// form has both a succeeding and a failing input in it.
func USmall() []any {
	return []any{
		nil, false, true, 0, 1, -1, 2, 1.5, "", "a", "ab",
		A{}, A{0}, A{1, 2}, A{1, A{2}}, A{nil}, A{A{}, O{}}, A{3, 1, 2}, A{"a", "b"}, A{A{1, 2}, A{3, 4}},
		A{O{"a": 1}, O{"a": 2, "b": 3}}, A{false, nil, 1},
		O{}, O{"a": 1}, O{"a": nil}, O{"a": O{"b": 2}}, O{"a": A{1, 2}, "b": "x"}, O{"a": O{"a": O{"a": 0}}},
		O{"a": 1, "b": 2, "c": 3}, O{"b": A{O{"a": 1}}, "a": false}, O{"a": "a", "b": A{}},
		A{0, 1, 2, 3, 4}, O{"a": A{O{"b": 1}, O{"b": 2}}}, "abc", -2, 10, A{A{}}, A{1, 1, 1},
		O{"c": O{"d": A{1, O{"e": nil}}}}, A{"x", 1, nil, A{}, O{}},
	}
}

// UTypes covers every type and the awkward members of each.
func UTypes() []any {
	return []any{
		nil, false, true,
		0, 1, -1, 2, 3, 7, -5, 100, 1 << 31, math.MaxInt64, math.MinInt64, 1 << 53, 1<<53 + 1,
		0.0, 0.5, -0.5, 1.5, 2.5, -1.5, 1e-7, 1e17, 1.7976931348623157e308, 5e-324, 3.0, -3.0, math.Copysign(0, -1),
		math.NaN(), math.Inf(1), math.Inf(-1),
		big_("9223372036854775808"), big_("-9223372036854775809"), big_("1000000000000000000000000000000"), big_("18446744073709551616"),
		json.Number("1"), json.Number("1.0"), json.Number("1e1000"), json.Number("-1e1000"), json.Number("100000000000000000000"), json.Number("0.1"), json.Number("1E2"),
		"", "a", "abc", "A b", "é", "日本語", "😀", "a\x00b", "\xff", "a\xffb", "\xed\xa0\x80", "1", "1.5", "null", "[1,2]", "{\"a\":1}", "2015-03-05T23:51:47Z", "a.b", "a*", "(", "\\", "\"", "\n", " ", "a,b", "%41", "YWJj", "%",
		A{}, A{nil}, A{0}, A{1, 2, 3}, A{3, 1, 2}, A{"a", "b"}, A{"b", "a", "c"}, A{A{}}, A{A{1}, A{2, 3}}, A{1, "a", nil}, A{O{"a": 1}, O{"a": 2}}, A{A{"a", 1}, A{"b", 2}},
		A{0, 1, 2, 3, 4, 5, 6, 7, 8, 9}, A{1.5, 2}, A{"a", A{"b", A{"c"}}}, A{O{"key": "a", "value": 1}}, A{O{"name": "k", "value": nil}}, A{true, false}, A{2015, 2, 5, 23, 51, 47, 4, 63},
		O{}, O{"a": 1}, O{"a": nil}, O{"a": 1, "b": 2}, O{"b": 2, "a": 1, "c": O{"d": 3}}, O{"a": A{1, 2}}, O{"a": O{"b": O{"c": 1}}}, O{"": 0}, O{"é": "ü"}, O{"a": "x", "b": A{O{}}}, O{"key": 1, "value": 2}, O{"start": 1, "end": 2},
	}
}

// Reps rewrites every number of v into the other exact Go representations.
// mode 0: unchanged; 1: ints -> *big.Int; 2: numbers -> json.Number;
// 3: ints -> float64 when exactly representable.
func Reps(v any, mode int) any {
	switch v := v.(type) {
	case int:
		switch mode {
		case 1:
			return big.NewInt(int64(v))
		case 2:
			return json.Number(strconv.Itoa(v))
		case 3:
			if f := float64(v); int(f) == v && math.Abs(f) < 1<<53 {
				return f
			}
		}
		return v
	case *big.Int:
		switch mode {
		case 2:
			return json.Number(v.String())
		case 0, 1:
			if mode == 0 {
				return v
			}
			if v.IsInt64() {
				return v // keep as big (non-normalised representation)
			}
		}
		return v
	case float64:
		if mode == 2 && !math.IsNaN(v) && !math.IsInf(v, 0) {
			return json.Number(strconv.FormatFloat(v, 'g', -1, 64))
		}
		return v
	case []any:
		w := make([]any, len(v))
		for i, x := range v {
			w[i] = Reps(x, mode)
		}
		return w
	case map[string]any:
		w := make(map[string]any, len(v))
		for k, x := range v {
			w[k] = Reps(x, mode)
		}
		return w
	}
	return v
}

var keyPool = []string{"a", "b", "c", "d", "e", "key"}

// RandValue builds a PRNG-determined nested value.
func RandValue(r *rand.Rand, depth int) any {
	n := 8
	if depth <= 0 {
		n = 6
	}
	switch r.IntN(n) {
	case 0:
		return nil
	case 1:
		return r.IntN(2) == 0
	case 2:
		return r.IntN(7) - 2
	case 3:
		return []any{0.5, 1.5, -2.5, 1e3, 3.0}[r.IntN(5)]
	case 4:
		return []string{"", "a", "b", "ab", "é", "x y"}[r.IntN(6)]
	case 5:
		return r.IntN(100)
	case 6:
		k := r.IntN(5)
		a := make([]any, k)
		for i := range a {
			a[i] = RandValue(r, depth-1)
		}
		return a
	default:
		k := r.IntN(5)
		m := make(map[string]any, k)
		for i := 0; i < k; i++ {
			m[keyPool[r.IntN(len(keyPool))]] = RandValue(r, depth-1)
		}
		return m
	}
}
