package gen

import "strings"

// JoinPrograms: control-flow joins (the point where two branches meet) followed directly by an instruction the peephole
// pass likes to fuse, inside consumers that pop more than one stack slot. Product of
//
//	construct (if / comma / alternative / try / optional / label) x branch tails (variable, constant, access, identity)
//	x continuation (variable load, constant, identity, break, bind) x consuming context.
//
// every=1 gives the full product; every=k keeps a deterministic 1/k slice (each construct, tail and context still occurs).
func JoinPrograms(every int) []string {
	tails := []string{"$a", "$b", "1", "\"s\"", ".k?", ".", "null", "[.]"}
	constructs := []string{
		"if . then %X else %Y end", "if .k? then %X else %Y end", "(%X, %Y)", "(%X // %Y)", "try %X catch %Y", "try error(%X) catch %Y",
		"(%X | select(. != null)), %Y", "(label $l | %X, (%Y | ., break $l))", "((%X)?, %Y)", "if . then %X end", "(%X | if . == 1 then %Y else . end)",
	}
	conts := []string{" | $x", " | $x | .", " | 5", " | .", "", " | break $out", " | $a", " as $q | $x", " | [$x]", " | $__loc__ | .line", " | empty", " | $x, $a"}
	ctxs := []string{"(%s) + 10", "10 - (%s)", "[(%s) - 1]", "{a: (%s)}", "{(%s | tostring): 1}", "[., (%s)]", "(%s) as $r | [$r, .]", "[limit(3; %s)]", "%s", "[.[]? | (%s)]",
		"((%s) and true)", "[(%s), (%s)]", "reduce (%s) as $z (0; . + ($z | tostring | length))", "[(%s) < 3]", "[1, 2, 3][(%s) | numbers]", "{a: 1, b: (%s), c: .}", "[foreach (%s) as $z (0; . + 1; [$z, .])]"}
	var out []string
	n := 0
	for ci, cons := range constructs {
		for xi, x := range tails {
			for yi, y := range tails {
				core := strings.ReplaceAll(strings.ReplaceAll(cons, "%X", x), "%Y", y)
				for ki, k := range conts {
					for ti, ctx := range ctxs {
						n++
						if every > 1 && (ci*31+xi*17+yi*13+ki*7+ti*3)%every != 0 {
							continue
						}
						out = append(out, "1 as $a | 2 as $b | 5 as $x | label $out | "+strings.ReplaceAll(ctx, "%s", "("+core+")"+k))
					}
				}
			}
		}
	}
	return out
}

// JoinInputs are the inputs JoinPrograms are meant for: each construct takes either branch on some of them.
func JoinInputs() []any {
	return []any{true, nil, map[string]any{"k": "q"}, map[string]any{"k": 3}, []any{1}, 1}
}

// PathBindPrograms: bindings (plain, destructuring, alternatives) and other constructs with a non-path operand, evaluated at
// path level (path, paths, del, =, |=, +=, pick): the operand must not leak into the path being built.
func PathBindPrograms() []string {
	srcs := []string{".", ".a", "first(.)", ".[0]", "(.)", ". | .", "1", "[.]", ".. | arrays", "$v"}
	pats := []string{"$a", "[$a]", "{a: $a}", "[$a, $b]", "{$a}", "{\"a\": [$b]}", "[$a] ?// $a", "{a: $a} ?// [$a] ?// $a", "[[$a]]", "{a: {b: $a}}", "[$b, {$a}]"}
	bodies := []string{".", ".[$a]", ".a", ".[0]", ".[$a]?", "getpath([$a])?", "., .[0]?", ".[$a | numbers]", ".[$a | strings]?", "if $a then .a else .[0] end?", ".. | select(. == $a)"}
	wraps := []string{"[path(%s)]", "[paths(%s | true)]?", "del(%s)", "(%s) = 1", "(%s) |= 5", "(%s) += 1", "[path(first(%s))]", "pick(%s)?", "[path(%s | .)]", "to_entries? | (%s) |= .", "[path(.. | %s)]?", "try ((%s) |= empty) catch \"e\""}
	var out []string
	for _, s := range srcs {
		for _, p := range pats {
			for bi, b := range bodies {
				for wi, w := range wraps {
					if (bi+wi)%2 == 1 && s != "." {
						continue
					}
					out = append(out, "0 as $v | null as $a | null as $b | "+strings.ReplaceAll(w, "%s", s+" as "+p+" | "+b))
				}
			}
		}
	}
	// other constructs whose operand is evaluated as a value in the middle of a path
	ops := []string{".", ".a", ".[0]", "1", "\"a\"", "$v", "first(.[]?)", "[.]", "length", "keys?[0]"}
	for _, o := range ops {
		for _, f := range []string{".[%s]?", ".[%s:]?", ".[:%s]?", "getpath([%s])?", "if %s then .a else .[0] end?", "select(%s)", "limit(%s | numbers; .[]?)", "(%s) as $x | .[$x]?", "reduce (%s) as $x (.; .)", "foreach (%s) as $x (0; 1; 2) | empty",
			".a?[%s]?", "(.a?, .[0]?) | .[%s]?", "if . then .[%s]? else . end", ".[%s]? // .a?", "label $l | .[%s]?, break $l", "try .[%s] catch empty", "def f: %s; .[f]?", "def f(g): .[g]?; f(%s)", "def f($g): .[$g]?; f(%s)", "first(.[%s]?, .)", ".[]? |= . | .[%s]?", "recurse(if . == %s then empty else .[]? end)?"} {
			for _, w := range []string{"[path(%s)]", "del(%s)", "(%s) |= 7", "(%s) = 3"} {
				out = append(out, "0 as $v | "+strings.ReplaceAll(w, "%s", strings.ReplaceAll(f, "%s", o)))
			}
		}
	}
	return out
}

// PathBindInputs pair with PathBindPrograms.
func PathBindInputs() []any {
	return []any{[]any{1, 2}, nil, map[string]any{"a": 0}, map[string]any{"a": "a", "b": []any{1}}, []any{0, []any{1}}, []any{1, "x", "y"}, []any{[]any{0}, []any{1}}, map[string]any{"a": map[string]any{"b": 1}}, 0, "a"}
}

// LiteralShapePrograms: container literals whose members are built from constants and the identity with commas, pipes
// and parentheses in every arrangement (all binary trees over 2..4 leaves from {1, ., 2}; every=k keeps a
// deterministic 1/k slice of the four-leaf ones). The constant-folding rewrites recognise literals by the shape of the
// emitted instructions, and the identity emits none: `(1, . | 2)` and `1, 2` look alike.
func LiteralShapePrograms(every int) []string {
	atoms := []string{"1", ".", "2"}
	ops := []string{", ", " | "}
	var trees func(n int) []string
	memo := map[int][]string{}
	trees = func(n int) []string {
		if t, ok := memo[n]; ok {
			return t
		}
		var out []string
		if n == 1 {
			out = atoms
		} else {
			for k := 1; k < n; k++ {
				for _, l := range trees(k) {
					for _, r := range trees(n - k) {
						for _, o := range ops {
							out = append(out, "("+l+o+r+")")
						}
					}
				}
			}
		}
		memo[n] = out
		return out
	}
	wraps := []string{"[%s]", "[%s, 3]", "[3, %s]", "{a: %s}", "{a: 3, b: %s}", "[-%s]", "[[%s], 3]", "{a: [%s]}", "[%s] | length", "[%s, %s]"}
	var out []string
	n := 0
	for leaves := 2; leaves <= 4; leaves++ {
		for _, t := range trees(leaves) {
			inner := t[1 : len(t)-1] // without the outermost parentheses too
			for wi, w := range wraps {
				n++
				if leaves == 4 && every > 1 && n%every != 0 {
					continue
				}
				s := t
				if wi%2 == 1 {
					s = inner
					if w[0] == '{' || w == "[-%s]" {
						s = t // an object value / a negated term needs the parentheses
					}
				}
				out = append(out, replaceAll(w, s))
			}
		}
	}
	return out
}

func replaceAll(w, s string) string {
	out := ""
	for i := 0; i < len(w); i++ {
		if w[i] == '%' && i+1 < len(w) && w[i+1] == 's' {
			out += s
			i++
			continue
		}
		out += string(w[i])
	}
	return out
}

// RecursionPrograms: self-recursive definitions whose recursive call LOOKS like a tail call but is not one for the
// interpreter — functions with `$value` parameters whose later arguments read earlier parameters, and calls that end a
// try body, an optional, an alternative, a label or a reduce — each followed by something that can tell the
// difference (an accumulator, an error raised behind the call).
func RecursionPrograms() []string {
	core := []string{
		"def f($n; $acc): if $n == 0 then $acc else f($n - 1; $acc + $n) end; f(3; 0)",
		"def fib($n; $a; $b): if $n == 0 then $a else fib($n - 1; $b; $a + $b) end; fib(10; 0; 1)",
		"def f($n; $acc): if $n <= 0 then $acc else f($n - 1; [$n] + $acc) end; f(4; [])",
		"def f($a; $b; $c): if $a >= 3 then [$a, $b, $c] else f($a + 1; $a; $b) end; f(0; \"b\"; \"c\")",
		"def f($n): if $n == 0 then . else (. + $n | f($n - 1)) end; 0 | f(4)",
		"def f(g; $n): if $n == 0 then g else f(g + 1; $n - 1) end; f(0; 3)",
		"def f($n; g): if $n == 0 then g else f($n - 1; g * 2) end; f(3; 1)",
		"def f($x; $y): if $x > 2 then $y else f($x + 1; $y + [$x]), \"side\" end; [f(0; [])]",
		"def f($n; $acc): if $n == 0 then $acc else ($n, f($n - 1; $acc + $n)) end; [f(3; 0)]",
		"def f($n; $acc): $n as $m | if $m == 0 then $acc else f($m - 1; $acc + $m) end; f(3; 0)",
		"def f($n; $acc): if $n == 0 then $acc else f($n - 1; $acc + ($n | . * 2)) end; f(3; 0)",
		"def f($a; $b): if $a == 0 then $b else f($a - 1; $a + $b) | . + 0 end; f(3; 0)",
		"def f($n; $acc): if $n == 0 then $acc elif $n % 2 == 0 then f($n - 1; $acc + $n) else f($n - 1; $acc - $n) end; f(5; 0)",
		"def f($n; $acc): label $l | if $n == 0 then $acc else f($n - 1; $acc + $n) end; f(3; 0)",
		"def f($n; $acc): def g: $acc + $n; if $n == 0 then $acc else f($n - 1; g) end; f(3; 0)",
		"def f($p): def g($q): if $q == 0 then $p else g($q - 1) end; g($p); f(3)",
		"def f($n; $acc): if $n == 0 then $acc else f($n - 1; $acc + $n) end; [f(2, 3; 0, 10)]",
		"def f($a; $b): if $a > 3 then [$a, $b] else f($b; $a + $b) end; f(1; 1)",
		"def f($a; $b): if ($a | length) > 2 then $b else f($a + [$b]; $a | length) end; f([]; 0)",
		"def f($n; $acc): . as $in | if $n == 0 then [$in, $acc] else ($in + 1 | f($n - 1; $acc + [$in])) end; 0 | f(3; [])",
		"def f: try (if . >= 3 then . else (. + 1 | f) end) catch \"caught\"; 0 | f | if . == 3 then error(\"x\") else . end",
		"def f: (if . >= 3 then . else (. + 1 | f) end)?; [0 | f | if . == 3 then error(\"x\") else . end]",
		"def f: try (if . >= 3 then error(\"in\") else (. + 1 | f) end) catch \"c\\(.)\"; 0 | f",
		"def f: try (if . >= 3 then ., error(\"late\") else (. + 1 | f) end) catch \"caught\"; [0 | f]",
		"def f: try (. + 1 | if . < 3 then f else . end) catch .; [0 | f | ., error(\"down\")]?",
		"def f: (.a? | f)? // .; {a: {a: 1}} | f",
		"def f: try (if . > 2 then . else . + 1 | f end); try (0 | f | error) catch \"outer\"",
		"def f: label $l | try (if . >= 3 then ., break $l else (. + 1 | f) end) catch \"c\"; [0 | f]",
		"def f: try (if . >= 2 then . else (. + 1 | f) end) catch \"c\"; [0, 1 | f] | map(if . == 2 then error(\"y\") else . end)?",
		"def f: first(if . >= 3 then . else (. + 1 | f) end); [0 | f, error(\"z\")]?",
		"def f: (if . >= 3 then . else (. + 1 | f) end) // \"alt\"; 0 | f | if . == 3 then error(\"x\") else . end",
		"def f: reduce 1 as $i (.; if . >= 3 then . else (. + 1 | f) end); 0 | f",
		"def f: if . >= 3 then . else (. + 1 | f) end | . + 0; 0 | f",
		"def f: [if . >= 3 then . else (. + 1 | f) end] | .[0]; 0 | f",
		"def f: try (if . >= 3 then . else (. + 1 | f) end) catch \"caught\"; [0 | f] | .[0] | error",
		"def f: ((. + 1 | select(. < 4) | f), .)?; [0 | f | if . == 2 then error(\"mid\") else . end]",
		"def f: try ((. + 1 | select(. < 3) | f), .) catch \"c\"; [0 | f | ., (select(. == 1) | error(\"one\"))]",
		"def f: . as [$h, $t] | try (if $t == null then $h else ($t | f) end) catch \"c\"; [1, [2, [3, null]]] | f | error",
		"def f: try (.[0] | f) catch \"leaf\"; [[[[1]]]] | f | ascii_downcase | error",
		"def f: (.[0] | f)?, \"after\"; [[[1]]] | [f]",
	}
	var out []string
	for _, p := range core {
		out = append(out, p, "try ("+p+") catch \"top: \\(.)\"", "["+p+"]?", "[limit(3; "+p+")]?", "(1, 2) as $k | "+p+" | [$k, .]?")
	}
	return out
}
