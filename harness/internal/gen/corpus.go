package gen

import (
	"bytes"
	"encoding/json"
	"io"
	"os"
	"strings"
	"sync"

	"github.com/itchyny/go-yaml"
)

// CorpusCase is one case of the repository's cli/test.yaml.
type CorpusCase struct {
	Name     string
	Args     []string
	Input    string
	Env      []string
	Expected string
	Error    string
	ExitCode int `yaml:"exit_code"`
}

// CorpusPath is the location of the pinned corpus.
var CorpusPath = "/repo/cli/test.yaml"

var (
	corpusOnce sync.Once
	corpus     []CorpusCase
	corpusErr  error
)

// Corpus loads cli/test.yaml.
func Corpus() ([]CorpusCase, error) {
	corpusOnce.Do(func() {
		f, err := os.Open(CorpusPath)
		if err != nil {
			corpusErr = err
			return
		}
		defer f.Close()
		corpusErr = yaml.NewDecoder(f).Decode(&corpus)
	})
	return corpus, corpusErr
}

// SimpleCase is a corpus case that is a plain query over JSON inputs with JSON
// outputs (flags limited to -c / -n), usable at library level.
type SimpleCase struct {
	Name     string
	Query    string
	Null     bool  // -n
	Inputs   []any // decoded with UseNumber
	Expected []any // decoded pinned outputs (nil when the case pins an error)
	HasError bool
}

// DecodeStream decodes a stream of JSON documents (UseNumber -> json.Number).
func DecodeStream(s string) ([]any, bool) {
	d := json.NewDecoder(strings.NewReader(s))
	d.UseNumber()
	var out []any
	for {
		var v any
		err := d.Decode(&v)
		if err == io.EOF {
			return out, true
		}
		if err != nil {
			return out, false
		}
		out = append(out, v)
	}
}

// SimpleCorpus returns the library-level subset of the corpus.
func SimpleCorpus() []SimpleCase {
	cs, err := Corpus()
	if err != nil {
		return nil
	}
	var out []SimpleCase
	for _, c := range cs {
		if len(c.Env) > 0 {
			continue
		}
		sc := SimpleCase{Name: c.Name}
		ok, nq := true, 0
		for _, a := range c.Args {
			switch {
			case a == "-c" || a == "--compact-output":
			case a == "-n" || a == "--null-input":
				sc.Null = true
			case a == "-nc" || a == "-cn":
				sc.Null = true
			case strings.HasPrefix(a, "-") && len(a) > 1 && !strings.ContainsAny(a[1:2], "0123456789.([{ "):
				ok = false
			default:
				sc.Query = a
				nq++
			}
		}
		if len(c.Args) == 0 {
			sc.Query, nq = ".", 1
		}
		if !ok || nq != 1 {
			continue
		}
		ins, good := DecodeStream(c.Input)
		if !good {
			continue
		}
		sc.Inputs = ins
		if sc.Null {
			sc.Inputs = []any{nil}
		}
		if c.Error != "" || c.ExitCode != 0 {
			sc.HasError = true
		}
		exp, good := DecodeStream(c.Expected)
		if !good {
			continue
		}
		sc.Expected = exp
		out = append(out, sc)
	}
	return out
}

// AllCorpusQueries returns every argument of every case that parses as a
// query candidate (used by parser-level monitors): the raw strings.
func AllCorpusQueries() []string {
	cs, _ := Corpus()
	seen := map[string]bool{}
	var out []string
	for _, c := range cs {
		for _, a := range c.Args {
			if !seen[a] {
				seen[a] = true
				out = append(out, a)
			}
		}
	}
	return out
}

var _ = bytes.NewReader
