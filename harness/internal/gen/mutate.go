package gen

import (
	"math/rand/v2"
	"sort"
	"strings"

	"github.com/itchyny/gojq"
)

// Tokens splits a query at the offsets where the real lexer (driven by the
// real parser) asked for a token outside a string literal.
func Tokens(src string) []string {
	pts, _ := gojq.VerifLexPoints(src)
	pts = append(pts, 0, len(src))
	sort.Ints(pts)
	var toks []string
	for i := 1; i < len(pts); i++ {
		if pts[i] > pts[i-1] && pts[i] <= len(src) {
			toks = append(toks, src[pts[i-1]:pts[i]])
		}
	}
	return toks
}

var mutPool = []string{
	".", ".a", ".[0]", ".[]", "..", "1", "0", "-1", "null", "true", "false", `"a"`, "[]", "{}", "empty", "error", "|", ",", "+", "-", "*", "/", "%", "==", "!=", "<", ">", "<=", ">=",
	"and", "or", "not", "//", "?", "?//", "|=", "=", "+=", "as", "$x", "$__loc__", "if", "then", "else", "elif", "end", "try", "catch", "reduce", "foreach", "label", "break", "$out", "def", "f", ":", ";",
	"(", ")", "[", "]", "{", "}", "first", "last", "limit", "select", "map", "recurse", "range", "length", "keys", "type", "add", "tostring", "path", "paths", "getpath", "del", "to_entries", "input", "env", "$ENV", "@json", "@base64",
	`"\(.)"`, ".[1:]", ".[:1]", "[.]", "{a:.}", "isempty", "until", "while", "repeat", "any", "all", "min_by", "sort_by", "group_by", "unique_by", "halt", "halt_error", "splits", "test", "ltrimstr", "tojson", "fromjson", "has", "in",
	"contains", "inside", "flatten", "join", "split", "ascii_downcase", "implode", "explode", "tonumber", "floor", "sqrt", "pow", "log", "infinite", "nan", "isnan", "indices", "index", "setpath", "delpaths", "with_entries", "from_entries", "walk", "transpose", "combinations", "ascii", "@text", "@csv", "@sh", "ltrimstr(1)", "limit(1;.)", "first(.)", "getpath([])",
}

// Mutate applies one token-level mutation.
func Mutate(r *rand.Rand, src string) string {
	toks := Tokens(src)
	if len(toks) == 0 {
		return mutPool[r.IntN(len(mutPool))]
	}
	i := r.IntN(len(toks))
	switch r.IntN(8) {
	case 0: // delete
		toks = append(toks[:i:i], toks[i+1:]...)
	case 1: // duplicate
		toks = append(toks[:i+1:i+1], toks[i:]...)
	case 2: // swap
		j := r.IntN(len(toks))
		toks[i], toks[j] = toks[j], toks[i]
	case 3, 4: // replace
		toks[i] = " " + mutPool[r.IntN(len(mutPool))] + " "
	case 5: // insert
		toks = append(toks[:i:i], append([]string{" " + mutPool[r.IntN(len(mutPool))] + " "}, toks[i:]...)...)
	case 6: // wrap a span
		j := i + r.IntN(len(toks)-i)
		w := [][2]string{{"(", ")?"}, {"try (", ")"}, {"[", "]"}, {"path(", ")"}, {"first(", ")"}, {"(", ") as $x | $x"}, {"{a: (", ")}"}, {"[limit(3; ", ")]"}, {"(", ") |= ."}, {"isempty(", ")"}, {"label $out | (", ")"}, {"del(", ")"}, {"reduce (", ") as $x (0; . + 1)"}}[r.IntN(13)]
		toks[i] = w[0] + toks[i]
		toks[j] = toks[j] + w[1]
	default: // replace with a token from elsewhere in the same query
		toks[i] = toks[r.IntN(len(toks))]
	}
	return strings.Join(toks, "")
}
