#!/bin/bash
# Development aid (sensitivity): for each fix commit, revert it in a scratch worktree of /repo (never /repo itself)
# and run the named checks against that tree; each must report a VIOLATION. Output: one line per (fix, check).
# usage: tools/revert_check.sh [outfile]
cd "$(dirname "$0")/.."
OUT=${1:-/dev/stdout}
PAIRS="
5a06fcd:C07,C08
97a82e1:C01,C04,C08
005a547:C04,C01
7d31ae7:C01
741a15a:C04,C01
996867a:C03,C01
9ab36aa:C02
dc1b8fa:C02,C05
b86fe04:C12
415f590:C18
6477e9c:C06
13cfadc:C17
b717910:C17
49aa510:C17
f3580a0:C17
bded925:C17
8d506d7:C17
be69287:C09
24f22f5:C03
d2cf3a6:C03
0674d69:C03
c9fab44:C03
c9bf373:C19
b7bf3cf:C12
d1e470b:C02,C05
60dafc3:C01,C02
e962ecc:C01
c20f61a:C01
31f82a9:C01
abf1ab3:C16
93f0ead:C16
eb6719b:C08
5445fef:C01
6478494:C02
93cb533:C18
5286ef6+614b0db:C17
f474c9d:C17
e0ba138:C09
2930c12:C09
7e3acd0:C19
4f685e4:C08
e53eedd:C08
aa19a68:C16
0072067:C01,C02
aaea8f1:C01
fc8744a:C17
5286ef6:C17
7b7bbd6:C17
fc8a7a4:C18
4480891:C04,C01
d61bc2a:C19
306c68e:C03
f411dd9:C17
a487d12:C17
50e2d9c:C17
a96e78b:C18
be32cad:C17
"
[ -n "$REVERT_ONLY" ] && PAIRS="$REVERT_ONLY"
for pair in $PAIRS; do
  sha=${pair%%:*}; checks=${pair##*:}
  wt=/tmp/vpd-rv-${sha//+/_}
  git -C /repo worktree remove --force $wt 2>/dev/null; rm -rf $wt $wt.verif
  git -C /repo worktree add -q --detach $wt HEAD || continue
  # sha may be several commits joined by '+' (a later fix that builds on an earlier one is reverted together with it)
  ok=1
  for one in ${sha//+/ }; do
    git -C $wt revert --no-commit $one >/dev/null 2>&1 || ok=0
  done
  if [ $ok = 0 ]; then
    echo "$sha revert-conflict" >> $OUT; git -C /repo worktree remove --force $wt; continue
  fi
  for id in ${checks//,/ }; do
    res=$(tools/sens.sh $wt $id quick 2>&1)
    nviol=$(echo "$res" | grep -c "^VIOLATION")
    echo "$sha $(git -C /repo log --format=%s -1 ${sha##*+} | cut -c1-60) | $id violations_reported=$nviol $(echo "$res" | grep "^$id quick" | grep -o "violations=[0-9]*")" >> $OUT
  done
  git -C /repo worktree remove --force $wt; rm -rf $wt.verif
done
