#!/usr/bin/env python3
"""Regenerates /verif/MANIFEST.json from the table below (dev helper; the manifest itself is committed)."""
import json, subprocess
props = [json.loads(l)['id'] for l in open('/verif/properties.jsonl')]
hook_commits = subprocess.run(['git', '-C', '/repo', 'log', '--format=%H %s'], capture_output=True, text=True).stdout.splitlines()
hook_commits = [l.split()[0] for l in hook_commits if l.split(' ', 1)[1].startswith('verif:')]

TRUST = "Trusted: the Go toolchain (go1.26) and standard library used as reference (math/big, strconv, encoding/json, regexp, unicode/utf8), the harness' own canonicaliser. Covers only the cases the generators produce; a clean run is 'held on what was observed', not a proof."

CHECKS = {
 "C10": dict(cat="exploration", tech="differential monitor against math/big + output re-parsing monitors (runtime monitoring of real executions)",
   text="Every `$a op $b` execution of the real library on boundary integers in all exact Go representations is compared with math/big (exactness, sign of modulo, zero-divisor errors, no wrap-around); number literals of every lexical shape are pushed through 40+ identity-like filters (library and real cmd/gojq process) and must come out with identical digits; computed floats of all bit-pattern classes must print as valid JSON that parses back to the same bits with the shortest digit string. Thorough enumerates all ordered pairs of the ~1200-value boundary set for each operator (14M evaluations).",
   ref="4/C10"),
 "C11": dict(cat="exploration", tech="invariant monitor over the real Compare on an exhaustively enumerated triple space + differential monitor of sort-family builtins against a specification comparator",
   text="gojq.Compare is called on every ordered pair of a ~200-value universe (420 in thorough) and the order axioms are asserted over every ordered triple (exhaustive: 8M / 74M triples); each pair is also evaluated through the six comparison operators by the real VM and through an independent comparator written from the manual. 250k (3M) generated arrays exercise sort, sort_by, unique, unique_by, group_by, min/max(_by), bsearch, array subtraction, index/rindex/indices and object key order (keys, iteration, to_entries, paths, tostream, Marshal, tojson and the real command) against stable-sort/partition/extreme definitions computed with the specification comparator, comparing Go representations strictly so stability is visible.",
   ref="4/C11"),
 "C07": dict(cat="fault_enumeration", tech="fault injection at every interpreter poll via a poll-counting context.Context + prefix/terminal oracle against the uncancelled run",
   text="For ~730 (program, input, option) cases (1500 in thorough) covering every loop form, native iterators, input iterators, Query.RunWithContext and argument-count errors, the context is closed at the k-th ctx.Done() poll for every k up to 400 and sampled k beyond; the cancelled run must emit exactly the uncancelled run's events before its k-th poll, then ctx.Err(), then be exhausted, without a single further poll or panic. Independently every iterator is driven past exhaustion and past every error value.",
   ref="4/C07"),
 "C01": dict(cat="exploration", tech="differential trace monitor: real Parse/Compile/Run vs an independent reference interpreter (executable model), plus CLI cross-observation",
   text="Every generated (program, input) case is executed by the real library under an instruction budget and by the reference interpreter M (CPS AST interpreter written from the jq manual, interpreting builtin.jq from its text); output/error event lists must agree (values by canonical form, user errors by value, internal errors by class, never by wording). Sources: ~2.5k bounded-exhaustive small programs x inputs, 30k (600k) random core-grammar programs x 4 inputs incl. other number representations, the library-level corpus with pinned inputs, 12k (250k) token mutations of corpus queries; 1% also through the real cmd/gojq. M is calibrated on the pinned corpus (reproduces the pinned output of every supported case).",
   ref="4/C01", note=TRUST + " C01 additionally trusts the reference interpreter (harness/internal/model) as a reading of the jq manual and gojq.Parse for turning text into the AST both sides consume (parser checked under C09). Programs outside the model's language are counted as unsupported and not compared."),
 "C04": dict(cat="exploration", tech="optimisation-switch differential monitor (metamorphic: same program compiled with each rewrite disabled via verif-tag hooks) + static scan of emitted bytecode",
   text="Each program is compiled by the real compiler by default, with each of 12 single optimisation switches off, with all off and with three groups off (17 configurations); every configuration must compile iff the default does, pass a bytecode well-formedness scan, and produce the same event list as the default on 3-5 inputs. Workload is weighted onto the rewrite preconditions: 1.7k template x one-instruction-argument programs, 44 tail/non-tail recursion forms, constant and near-constant assignment paths, 11.7k constant-branch conditionals in consuming contexts, 9k (200k) random programs with literal containers and updates, corpus and mutations. Evidence counts how many configurations actually changed the emitted code.",
   ref="4/C04", note=TRUST + " The switches are add-only guards that route to the compiler's own generic lowering; a rewrite without a switch (none known) is covered only by C01."),
 "C13": dict(cat="exploration", tech="metamorphic inverse-pair monitor over real library executions with harness-owned equality",
   text="16 inverse-pair laws of the statement are evaluated through Parse/Compile/Run on values of each law's stated domain (494-value universe under every law, every second of both ends of the year 1-9999 range, day boundaries, 500k (14M) random values/seconds) and the result is compared with the untouched input by the harness' canonical form AND the specification comparator. D8 (first second of year 1 fails todate|fromdate) is listed as a known finding by exact input.",
   ref="4/C13"),
 "C05": dict(cat="exploration", tech="invariant monitor on caller-visible state: deep snapshots (incl. hidden slice capacity and code-embedded literals via verif hook) re-checked after every Next; rerun-equality monitor",
   text="For each (program, aliased input) case the real library runs the compiled program four times; after every Next call the input, the variable value, all values emitted so far and every literal container embedded in the compiled code are re-serialised strictly (Go representation, shared structure, sentinel-filled hidden [len:cap] tails) and compared with their snapshots; reruns (same object, fresh copy after an interleaved run) must give identical canonical sequences and identical Marshal bytes. Workload: 8 aliased input shapes x 150 hand-written update/delete/add/sort/slice programs, a sweep of every name/arity reported by `builtins` over the aliased input and its aliased sub-values, 12k (300k) generated update-heavy programs, the corpus.",
   ref="4/C05"),
 "C20": dict(cat="exploration", tech="resource-invariant monitor on hooked interpreter state (footprint of stacks/registers/forks read at n and 8n iterations of a live iterator)",
   text="For 70 generator forms, 60 loop forms and 600 (10k) generated parameterless definitions whose self call is in syntactic tail position, the real VM is driven to n and 8n outputs (or run with $n = n and 8n) and the interpreter footprint — backing-array high-water marks of the data, path and scope stacks and the register file, plus fork-stack capacity, read through the verif hook — must not grow by more than 16 slots; a prefix of the outputs / the result is also compared with the reference interpreter so that constant space is not bought by dropping values.",
   ref="4/C20"),
 "C12": dict(cat="exploration", tech="output re-parsing monitor: every output mode of the real library and command read back by independent readers (own JSON scanner + encoding/json), cross-mode equality, layout checker, YAML round trip",
   text="Every value (exhaustive: all 5257 strings of <= 2 symbols over a 72-symbol hostile alphabet as values and keys; float bit-pattern classes; number literals; big integers; random strings to 38 KB; depth-200 and 5000-wide containers) is serialised by Marshal, tojson/tostring/@json/@text/interpolation and by the real command under 51 option sets (compact, default, --tab, --indent 0..9, colour variants with SGR stripping, raw modes); each text must be valid UTF-8, accepted by an independent scanner and encoding/json, decode to the emitted value modulo the documented lossy cases, agree across modes up to insignificant whitespace, be indented by exactly depth x unit, and survive --yaml-output | --yaml-input by value. Two go-yaml block-scalar defects are listed as known findings by signature.",
   ref="4/C12"),
 "C16": dict(cat="fault_enumeration", tech="differential monitor of the real command against its in-language equivalents and an independent JSON scanner/event model; truncation fault at every byte under --stream",
   text="All observations are runs of the real cmd/gojq: -s . vs -n [inputs]; -n input/inputs over stdin and files with uniquely numbered documents against a sequential model; --stream vs tostream/fromstream and an independent event model; every byte-wise truncation of ~105 (1530) document streams under --stream (events must be a prefix, contain every event closed before the cut, then exactly one error and status 5); -R/-Rs against the harness' own line split; --arg/--argjson/--slurpfile/--rawfile/--args/--jsonargs against literal bindings (first binding wins); -f file vs text; 10 kinds of malformed documents under six modes.",
   ref="4/C16"),
 "C18": dict(cat="exploration", tech="differential monitor against a module-resolution/scope model and against the textually inlined program, on random module trees written to disk",
   text="3000 (40000) random module trees (depth <= 3, diamonds, name clashes between importer/module/transitive modules, same name at several arities, data modules, name.jq vs name/name.jq, same module in several search directories, relative search metadata, ~/.jq) are written to disk and compiled by the real library loader and (20%) the real command; every definition returns a label naming itself, so resolution is observable. Refuted when a call site resolves differently from the model, an invisible name compiles or a visible one fails, the outputs differ from the single-file inlined program, $d/$d::d differ from the data file, or modulemeta differs from the file structure.",
   ref="4/C18"),
 "C19": dict(cat="exploration", tech="ambient-variation differential, strace syscall monitor over a sentinel-bracketed window, instrumented-iterator/grant monitors, Go-callback vs jq-definition differential",
   text="Option-less programs over every name/arity of `builtins` are run under two generated ambient states (environment, cwd, planted .jq files, stdin) and must be indistinguishable; capability terms must fail without their option; an strace session (deny-by-default scan of %file,%network,%process and reads of fd 0-2 between two sentinel syscalls, with a positive control session) watches 2000 (20000) programs; WithVariables/WithInputIter/WithEnvironLoader are checked with instrumented iterators and an independent model; 25k (500k) programs compare a Go callback (arity ranges 0..30, overlapping registrations, iterator and error behaviours) with the equivalent jq definition in 95 calling contexts. D7 (native arguments evaluated with path tracking on) is a known finding by call-site signature.",
   ref="4/C19"),
 "C06": dict(cat="exploration", tech="Go race detector (sanitizer) over concurrent workloads + per-goroutine equality with the sequential baseline + fatal-error attribution by per-case journal",
   text="Workers are built with -race. Each (program, input, mode) case runs alone first, then 8 goroutines x 10 (30) runs at once on a shared *Code or a shared *Query (concurrent compilation), on private input copies or on one shared input that a canary goroutine keeps deep-reading; every run must equal the baseline, the process' race log must gain no DATA RACE block with a gojq frame (attributed to the case by log growth), and a runtime fatal error (concurrent map writes...) kills the worker and is attributed by the journal. Programs: 110 hand-written delete/update/sort/regex programs over inputs and over literals folded into the code, a sweep of every builtin, 1.5k (12k) generated update-heavy programs, the whole corpus; 256k concurrent runs in quick.",
   ref="4/C06", note=TRUST + " The race detector is happens-before based: it reports a race only when both accesses occur in the observed run."),
 "C15": dict(cat="exploration", tech="differential monitor: real cmd/gojq process vs an expectation computed from the library plus an independent renderer and the documented status table",
   text="28k (1.2M) runs of the real command over generated (argv, query, stdin) cases: stdout must be byte-equal to the concatenation, input by input, of the library's outputs rendered by the harness' own re-indenter/raw renderer with the selected terminator; stderr must carry exactly the due diagnostics (planted markers catch duplicates and losses); exit status must follow the table (0, 1/4 under -e, 2 flag-parser rejections, 3 parse/compile, 5 runtime/input errors, halt/halt_error code mod 256 with the message rule); --raw-output0 must reject NUL. Systematic part: all halt codes x messages, the -e table, error/halt planted at every position, every indent, malformed tails, input consumers; random part visits all 512 flag combinations.",
   ref="4/C15"),
 "C14": dict(cat="exploration", tech="reference-model monitor: code-point laws against []rune/unicode/utf8 and regex builtins against Go regexp driven directly, composition laws between the builtins, instruction-budget termination check",
   text="Subjects over a mixed-width alphabet exhaustive to length 4 (4681) plus random longer ones; positions: length/explode/.[i]/.[i:j]/index/rindex/indices against the same operation on []rune; regex: 225+ grammar-generated regexes x 6-10 flag sets: every match/capture (offset,length) must slice the subject to its string, test iff a match exists, capture/scan/splits/split/sub/gsub must be the documented compositions of (global) matches, a named group around the whole regex substituted back must rebuild the subject, and each builtin must terminate within 50000+5000*n instructions, including regexes matching the empty string. Thorough runs the full subjects x regexes x flags product (8.8M).",
   ref="4/C14"),
 "C02": dict(cat="exploration", tech="metamorphic monitor (operator vs its defining reduction, both executed by the real library) + reference-primitive differential + alignment/non-interference/invalid-path invariant monitors + reference-interpreter differential",
   text="228k (3M) cases per run: every ordered pair and sampled triples of 36 path atoms (ancestor/descendant/equal/slice-overlap in every order) and generated path-safe expressions, combined with 21 update bodies (copy, duplicate, embed, slice, replace, compute, drop, multiply, fail) and inputs with shared and nested structure. `|=`, `=`, `op=`, `//=`, `del` must equal their defining reductions over path/getpath/setpath/delpaths; path(p) must align with the outputs of p through the harness' reference getpath; getpath/setpath/delpaths must equal always-copying reference primitives on all paths of a value plus hostile paths; unrelated paths must keep their values after an update; navigation from constructed values must raise an invalid-path error; the jq-defined path functions are compared with the reference interpreter evaluating builtin.jq's text.",
   ref="4/C02", note=TRUST + " C02 additionally trusts the reference primitives (harness/internal/model/paths.go) and, for the model sub-check, the reference interpreter."),
 "C17": dict(cat="fault_enumeration", tech="single-fault injection at known byte offsets into documents/queries/YAML fed to the real command; offline oracle over the printed line number, excerpt and caret (terminal-column widths)",
   text="17.5k (178k) runs of the real command, each on a well-formed multi-line document, query or YAML text with exactly one injected fault whose offending byte is known by construction and cross-checked with encoding/json: fault at every line start and sampled token boundaries, ASCII/2/3/4-byte/double-width characters, inputs from bytes to 116 KB with 0-3 preceding documents (faults before, at and after every 16 KiB window reset and inside decoder read-ahead, aligned to k*4096+-1), LF/CRLF/CR terminators, file/stdin-file/pipe transport, plain/--stream/-s/--slurpfile/--argjson/second file/import modes. The printed line must be the line of the offending byte in the whole input, the excerpt a substring of that line containing the character, the caret under it in terminal columns; for queries ParseError.Offset/Token must delimit the offending token. One known finding (D6f) by exact case and narrow signature.",
   ref="4/C17"),
}

checks = []
for pid in props:
    if pid not in CHECKS:
        continue
    c = CHECKS[pid]
    checks.append({
        "property_id": pid,
        "quick_cmd": f"./check.sh {pid} quick",
        "thorough_cmd": f"./check.sh {pid} thorough",
        "evidence_file": f"evidence/{pid}.json",
        "replay_cmd_template": f"./check.sh {pid} replay {{path}}",
        "engine": "vcheck",
        "level_claimed": {"category": c["cat"], "text": c["text"], "design_ref": c["ref"]},
        "level_note": c.get("note", TRUST),
        "technique": c["tech"],
    })
m = {
 "version": 1,
 "setup_cmd": "./check.sh setup",
 "hooks": {
   "guard": "verif",
   "enable": "go1.26 build -tags verif (the harness module replaces github.com/itchyny/gojq with /repo, so every check compiles /repo's working tree with the hooks on)",
   "baseline_off_cmd": "cd /repo && go test -mod=mod -json -vet=off -count=1 -timeout 25m ./...",
   "source_commits": hook_commits,
   "add_only": True,
 },
 "engines": [{"name": "vcheck", "path": "harness/cmd/vcheck", "serves_properties": [c["property_id"] for c in checks],
              "kind_free_text": "Go orchestrator + worker processes running the real gojq library and cmd/gojq under monitors (reference-model differential, metamorphic, invariant, event-log checkers; Go race detector for C06); per-case journal so a process-fatal error is attributed to its case."}],
 "checks": checks,
 "notes": "Runtime monitoring only: every verdict is an oracle observing executions of code built from /repo's working tree. Exit 0 = held on everything explored (KNOWN-FINDING lines for listed findings), exit 1 + VIOLATION line = violation, exit 1 + INCONCLUSIVE line (no VIOLATION) = too little observed / tree does not build.",
 "not_applicable": [{"property_id": p, "reason": "check not built yet (build round in progress); planned per DESIGN.md section 4"} for p in props if p not in CHECKS],
}
json.dump(m, open('/verif/MANIFEST.json', 'w'), indent=1)
print("claimed:", [c["property_id"] for c in checks])
