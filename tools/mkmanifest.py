#!/usr/bin/env python3
"""Regenerates /verif/MANIFEST.json from the table below (dev helper; the manifest itself is committed)."""
import json, subprocess
props = [json.loads(l)['id'] for l in open('/verif/properties.jsonl')]
hook_commits = subprocess.run(['git', '-C', '/repo', 'log', '--format=%H %s'], capture_output=True, text=True).stdout.splitlines()
hook_commits = [l.split()[0] for l in hook_commits if l.split(' ', 1)[1].startswith('verif:')]

TRUST = "Trusted: the Go toolchain (go1.26) and standard library used as reference (math/big, strconv, encoding/json, regexp, unicode/utf8), the harness' own canonicaliser. Covers only the cases the generators produce; a clean run is 'held on what was observed', not a proof."

CHECKS = {
 "C10": dict(cat="exploration", tech="differential monitor against math/big + output re-parsing monitors (runtime monitoring of real executions)",
   text="Every `$a op $b` execution of the real library on boundary integers in all exact Go representations is compared with math/big (exactness, sign of modulo, zero-divisor errors, no wrap-around); number literals of every lexical shape are pushed through 40+ identity-like filters (library and real cmd/gojq process) and must come out with identical digits; computed floats of all bit-pattern classes must print as valid JSON that parses back to the same bits with the shortest digit string. Thorough enumerates all ordered pairs of the ~1200-value boundary set for each operator (14M evaluations).",
   ref="4/C10"),
 "C11": dict(cat="exploration", tech="invariant monitor over the real Compare on an exhaustively enumerated triple space + differential monitor of sort-family builtins against a specification comparator",
   text="gojq.Compare is called on every ordered pair of a ~200-value universe (420 in thorough) and the order axioms are asserted over every ordered triple (exhaustive: 8M / 74M triples); each pair is also evaluated through the six comparison operators by the real VM and through an independent comparator written from the manual. 250k (3M) generated arrays exercise sort, sort_by, unique, unique_by, group_by, min/max(_by), bsearch, array subtraction, index/rindex/indices and object key order (keys, iteration, to_entries, paths, tostream, Marshal, tojson and the real command) against stable-sort/partition/extreme definitions computed with the specification comparator, comparing Go representations strictly so stability is visible.",
   ref="4/C11"),
 "C07": dict(cat="fault_enumeration", tech="fault injection at every interpreter poll via a poll-counting context.Context + prefix/terminal oracle against the uncancelled run",
   text="For ~730 (program, input, option) cases (1500 in thorough) covering every loop form, native iterators, input iterators, Query.RunWithContext and argument-count errors, the context is closed at the k-th ctx.Done() poll for every k up to 400 and sampled k beyond; the cancelled run must emit exactly the uncancelled run's events before its k-th poll, then ctx.Err(), then be exhausted, without a single further poll or panic. Independently every iterator is driven past exhaustion and past every error value.",
   ref="4/C07"),
 "C01": dict(cat="exploration", tech="differential trace monitor: real Parse/Compile/Run vs an independent reference interpreter (executable model), plus CLI cross-observation",
   text="Every generated (program, input) case is executed by the real library under an instruction budget and by the reference interpreter M (CPS AST interpreter written from the jq manual, interpreting builtin.jq from its text); output/error event lists must agree (values by canonical form, user errors by value, internal errors by class, never by wording). Sources: ~2.5k bounded-exhaustive small programs x inputs, 30k (600k) random core-grammar programs x 4 inputs incl. other number representations, the library-level corpus with pinned inputs, 12k (250k) token mutations of corpus queries; 1% also through the real cmd/gojq. M is calibrated on the pinned corpus (reproduces the pinned output of every supported case).",
   ref="4/C01", note=TRUST + " C01 additionally trusts the reference interpreter (harness/internal/model) as a reading of the jq manual and gojq.Parse for turning text into the AST both sides consume (parser checked under C09). Programs outside the model's language are counted as unsupported and not compared."),
 "C04": dict(cat="exploration", tech="optimisation-switch differential monitor (metamorphic: same program compiled with each rewrite disabled via verif-tag hooks) + static scan of emitted bytecode",
   text="Each program is compiled by the real compiler by default, with each of 12 single optimisation switches off, with all off and with three groups off (17 configurations); every configuration must compile iff the default does, pass a bytecode well-formedness scan, and produce the same event list as the default on 3-5 inputs. Workload is weighted onto the rewrite preconditions: 1.7k template x one-instruction-argument programs, 44 tail/non-tail recursion forms, constant and near-constant assignment paths, 11.7k constant-branch conditionals in consuming contexts, 9k (200k) random programs with literal containers and updates, corpus and mutations. Evidence counts how many configurations actually changed the emitted code.",
   ref="4/C04", note=TRUST + " The switches are add-only guards that route to the compiler's own generic lowering; a rewrite without a switch (none known) is covered only by C01."),
 "C13": dict(cat="exploration", tech="metamorphic inverse-pair monitor over real library executions with harness-owned equality",
   text="16 inverse-pair laws of the statement are evaluated through Parse/Compile/Run on values of each law's stated domain (494-value universe under every law, every second of both ends of the year 1-9999 range, day boundaries, 500k (14M) random values/seconds) and the result is compared with the untouched input by the harness' canonical form AND the specification comparator. D8 (first second of year 1 fails todate|fromdate) is listed as a known finding by exact input.",
   ref="4/C13"),
}

checks = []
for pid in props:
    if pid not in CHECKS:
        continue
    c = CHECKS[pid]
    checks.append({
        "property_id": pid,
        "quick_cmd": f"./check.sh {pid} quick",
        "thorough_cmd": f"./check.sh {pid} thorough",
        "evidence_file": f"evidence/{pid}.json",
        "replay_cmd_template": f"./check.sh {pid} replay {{path}}",
        "engine": "vcheck",
        "level_claimed": {"category": c["cat"], "text": c["text"], "design_ref": c["ref"]},
        "level_note": c.get("note", TRUST),
        "technique": c["tech"],
    })
m = {
 "version": 1,
 "setup_cmd": "./check.sh setup",
 "hooks": {
   "guard": "verif",
   "enable": "go1.26 build -tags verif (the harness module replaces github.com/itchyny/gojq with /repo, so every check compiles /repo's working tree with the hooks on)",
   "baseline_off_cmd": "cd /repo && go test -mod=mod -json -vet=off -count=1 -timeout 25m ./...",
   "source_commits": hook_commits,
   "add_only": True,
 },
 "engines": [{"name": "vcheck", "path": "harness/cmd/vcheck", "serves_properties": [c["property_id"] for c in checks],
              "kind_free_text": "Go orchestrator + worker processes running the real gojq library and cmd/gojq under monitors (reference-model differential, metamorphic, invariant, event-log checkers; Go race detector for C06); per-case journal so a process-fatal error is attributed to its case."}],
 "checks": checks,
 "notes": "Runtime monitoring only: every verdict is an oracle observing executions of code built from /repo's working tree. Exit 0 = held on everything explored (KNOWN-FINDING lines for listed findings), exit 1 + VIOLATION line = violation, exit 1 + INCONCLUSIVE line (no VIOLATION) = too little observed / tree does not build.",
 "not_applicable": [{"property_id": p, "reason": "check not built yet (build round in progress); planned per DESIGN.md section 4"} for p in props if p not in CHECKS],
}
json.dump(m, open('/verif/MANIFEST.json', 'w'), indent=1)
print("claimed:", [c["property_id"] for c in checks])
