#!/bin/bash
# usage: tools/seed_all.sh [parallelism]  — re-evaluates every kept seeded change against the current /repo HEAD and the current
# harness (own property's check plus the checks that caught it before), rewriting seeded/*/eval.txt
cd "$(dirname "$0")/.."
P=${1:-3}
for d in seeded/c*-*; do
  n=$(basename $d); own=C${n:1:2}
  extra=$(python3 - "$d" "$own" <<'PY'
import json,sys,os
d,own=sys.argv[1],sys.argv[2]
try:
    m=json.load(open(os.path.join(d,'meta.json')))
    print(",".join(k for k in m.get('caught_by',[]) if k!=own))
except Exception:
    print("")
PY
)
  echo "$n $own${extra:+,$extra}"
done | xargs -P $P -L 1 bash -c 'tools/seed_re.sh $0 $1 > /dev/null 2>&1; echo "done $0"'
