#!/bin/bash
# usage: tools/seed_re.sh <name> <checks>  — re-evaluates a kept seeded change (seeded/<name>/patch.diff and its demonstration) and rewrites eval.txt
cd "$(dirname "$0")/.."
NAME=$1; CHECKS=$2; D=seeded/$NAME
demo=$(ls $D/demo* 2>/dev/null | head -1)
tools/seed_eval.sh $NAME $D/patch.diff $demo "$CHECKS" > $D/eval.txt.new 2>&1 < /dev/null
mv $D/eval.txt.new $D/eval.txt
echo "== $NAME"; grep -E "^demo|^build|^repository|^C[0-9][0-9]:|DOES NOT APPLY" $D/eval.txt | cut -c1-200
