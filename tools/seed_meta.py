#!/usr/bin/env python3
"""Writes seeded/<name>/meta.json for every kept seeded change and regenerates SENSITIVITY.md.

Inputs per directory: patch.diff, demo*, notes.md (the author's description; the bullet starting with "need…" says what the change
needs in order to manifest), eval.txt (output of tools/seed_eval.sh: demo status with/without the patch, build/vet/suite status with the
patch, violations reported by each check that was run against the patched scratch worktree).
STRENGTHENED (below) records which checks had to be extended before they caught a change; it is maintained by hand.
"""
import json, os, re, sys, glob

ROOT = os.path.dirname(os.path.dirname(os.path.abspath(__file__)))
STRENGTHENED = {
    "c10-2": "C10 missed it at first (only literals up to ~40 digits were generated); literals of 60…20000 digits were added",
    "c03-2": "C03 missed it at first; an implode reference (out-of-range code point -> U+FFFD) and integers beyond 32 bits were added to the universe",
    "c09-2": "C09 missed it at first; a generator of hostile string literals (control characters, DEL, U+2028, astral runes) inside interpolated strings was added",
    "c02-2": "C02 missed it at first; empty constructed containers ([] / {} / [empty] …) were added as sources of the invalid-path-expression check",
    "c07-1": "C07 missed it at first (cancellation was only driven from inside the poll); cancellation between Next calls from the consumer side was added",
    "c07-2": "C07 missed it at first; the finished-iterator-after-other-runs (stale handle) check was added",
    "c01-2": "C01 missed it at first; bounded-exhaustive `?//` templates (all ordered pairs of 18 pattern shapes over three variables, three bodies, heterogeneous loops) were added",
    "c01-3": "C01 missed it at first; a scope family was added: 70 query positions and 55 sibling-position templates x 8 probes (function, parameterised function, variable, destructured variable, label of the same name inside and outside)",
    "c01-4": "C01 missed it at first; closure-resumption family added: 27 function bodies that keep using values bound before/between/after calls of a filter parameter x 8 multi-output arguments x 10 callers",
    "c03-3": "C03 caught it with a single case at first; fractional, huge, non-finite and wrong-typed values for `$name` parameters of filter-taking builtins and multi-output filter arguments were added",
    "c03-5": "same change as c11-1, filed under C03 by its author: C11 caught it at once (3200 cases), C03 only after 20-element arrays with tied keys were added to its universe",
    "c05-3": "C05 missed it at first; programs over pointer-backed scalars (*big.Int, negative too) as input elements, variables and literals were added",
    "c05-5": "C05 missed it at first; folds starting from a neutral element ({} / [] / \"\" / 0 / null) over inputs, variables and literals were added",
    "c06-4": "C06 missed it at first; the shared input now has spare capacity behind every array (what a decoder or slice leaves)",
    "c06-5": "C06 missed it at first; per-goroutine input variants (each compared with its own run alone) over programs whose per-Code state is keyed by run-time values (patterns, flags) were added",
    "c07-5": "C07 missed it at first; an error-site sweep (75 kinds of run-time error x 24 surrounding states, Next called on after each error value) was added",
    "c09-4": "C09 caught it with 2 cases at first; a head x suffix x separation family (37 term heads, 33 suffix spellings, glued or spaced) was added",
    "c10-3": "C10 missed it at first (C05 caught it); operand integrity after every evaluation is now part of c10.arith",
    "c10-4": "C10 and C11 missed it at first; exhaustive ordered pairs of 69 representation-boundary values x operators x all 9 representation combinations (C10) and word-edge integers held as *big.Int (C11) were added",
    "c10-5": "C10 caught it with 2 cases at first; same representation-boundary product (now 145 cases)",
    "c11-3": "C11: caught after the universe got slices sharing one backing array (added while handling c10-4)",
    "c11-5": "C11: caught after null-valued members under different keys were added to the universe",
    "c14-3": "C14 missed it at first; U+FFFD itself was added to the subject alphabet (exhaustive subjects up to length 4)",
    "c16-5": "C16 missed it at first; the args kind now combines named files/values with every input mode flag (-R, --stream, -s, --yaml-input and pairs)",
    "c17-3": "C17 missed it at first; unexpected-EOF faults now also end behind white space / comments (library Offset/Token checked; the command's display only when the end is not behind trivia)",
    "c18-3": "C18 missed it at first; generated definitions now have arities up to 12 (numeric vs textual order of name/arity)",
    "c19-5": "C19 caught it with a single case at first; the two ambient states now differ in the process' local time zone (time.Local replaced), with %z %s %Z formats",
    "c20-5": "C20 missed it at first (the defect is in the command's input reader, not in the VM); a command-level monitor of the kernel's peak RSS for 4 MiB vs 48 MiB piped streams in 9 line disciplines was added",
    "c02-1": "C02 caught it with only 3 cases at first; nested deleting update bodies were added to the body pool (now 62 cases)",
    "c06-2": "C06 caught it with only 3 cases at first; flat and nested deleting updates were added to the concurrent workload (now 18 racing cases)",
    "c20-2": "C20 caught it with a single case at first; every generated tail-recursive definition is now also started from a call site with something pending (30 loop sites, 20 generator sites)",
    "c04-1": "C04, C02 and C01 missed it at first; value operands (bindings with destructuring patterns and identity sources, indices, conditions, arguments) at path level were added as templates to C04/C02 and to the path-safe generator",
    "c04-2": "C04 and C01 missed it at first; control-flow join templates (11 two-branch constructs x 8x8 branch tails x 12 continuations x 17 multi-slot consumers) were added to C04 and C01",
    "c14-2": "C14 missed it at first (the test-vs-match cross-check existed, but no fully anchored literal was generated); whole-subject anchored literals were added to the fixed regexes and as a wrapping step of the generator",
    "c12-1": "C12 missed it at first; c12.lib now keeps every text Marshal returned for a batch, marshals the other values again (also from a second goroutine) and re-reads the kept slices",
    "c11-1": "C11 missed it at first: generated arrays had at most 12 elements; a quarter now has 13-40 and some up to 300",
    "c11-2": "C11 missed it at first (C03 caught it): the universe had json.Number(\"-0\") but not json.Number(\"0\"); integer/decimal literal spellings of zero and of numbers whose text order differs from numeric order were added",
    "c19-1": "C19 missed it at first (C04 caught it); bare calls of parameterless jq functions and of previously used builtins were added as callback arguments, plus a systematic path-context x argument-shape sweep",
    "c19-2": "C19 missed it at first; an iterator behaviour returning gojq.NewIter over a list kept by the caller, and WithInputIter(gojq.NewIter(list...)) used twice over the same list, were added",
    "c05-2": "C05 missed it at first; programs evaluating one pattern under unsupported and supported flag sets in every order were added to the rerun-equality workload",
}
STRENGTHENED.update({
    "c01-6": "C01 missed it at first; a value-sharing family was added: 14 bases x 20 pairs of derivations that extend, slice, update or delete from one base that stays reachable (the base and both results are emitted)",
    "c02-6": "C02 missed it at first; invalid-path cases whose computed value is a scalar numerically close to the location's value (floats next to integers, integers beyond 2^53) were added, with the unoptimised and the optimised compilation pre-checked against each other",
    "c02-7": "C02 missed it at first; path expressions whose operands contain their own forks (alternatives, try, limit, first, label/break inside index, slice, condition and argument positions) interleaved with path steps were added",
    "c02-8": "C02 missed it at first; plain assignments in triples (a slice replacement by a shorter / equal / longer array followed by an index update and a read of the old tail) were added to the update/read-back check",
    "c04-6": "C04 and C01 missed it at first; chained constant-path assignments with multi-output right-hand sides ((.a, .b) = (1, 2) | .c = .a and nested forms, 3 levels) were added to the near-constant path family",
    "c04-7": "C04 missed it at first; float-literal keys (1.0, 2.0, -0.0, 1e0, 1.5) in direct index position on arrays, objects and null, plus a sixth fixed input with numeric-looking keys, were added",
    "c05-6": "C05 missed it at first; a finished iterator is now kept and polled again while and after later runs of the same and of other Codes are in progress (stale handle), and the later runs are compared with runs alone",
    "c05-7": "C05 missed it at first; programs over `builtins` (the whole list, its order, group_by name, index of fixed entries) were added to the rerun-equality workload",
    "c05-8": "filed under C05 by its author, but it needs two goroutines: C06 catches it (29 racing cases); C05 is single-threaded by design",
    "c06-6": "C06 missed it at first; the concurrent phase now starts on a freshly compiled Code (first use happens concurrently) and compares with tables computed from another Code",
    "c06-8": "C06 missed it at first; a variables mode was added: all goroutines pass the same values slice (with spare capacity) to Run and the slice is checked afterwards",
    "c07-6": "C07 missed it at first; cancellation with a cause (context.WithCancelCause directly, through a child context and through a deadline with a cause) was added: Next has to return the context's error",
    "c08-6": "the author's patch did not apply any more after fix D30 touched the same switch; it was ported (same edit, new context line). C08 missed it at first (C02 caught it, 165 cases); a bounded-exhaustive family of path primitives with hostile path elements (13 elements, paths up to length 2, 25 single-path and 10 two-path forms, 6 inputs) was added: 2597 cases",
    "c08-8": "C08 missed it at first; same family as c08-6 (the two-path delpaths forms mark a container and then fail on it): 554 cases",
    "c09-6": "C09 missed it at first; ill-formed UTF-8 (lone continuation byte, invalid byte, overlong form, surrogate, truncated sequences) was added to the literal alphabet; such sources travel in hex",
    "c10-7": "C10 missed it at first; new kind c10.passthrough: arrays of 2-8 literals through ~90 filters that only move, select, group or reorder elements, from input / variable / fromjson and through the command: every output number carries an input spelling, the array handed in is unchanged",
    "c11-7": "C11 missed it at first; objects that differ in opposite directions under different keys (incl. the empty key) were added to the universe",
    "c14-6": "C14 missed it at first; new kind c14.invalid-utf8: position laws (length, indices, slices, explode, test/match offsets) on subjects with ill-formed UTF-8",
    "c15-7": "filed under C15 by its author; the --stream check of C16 catches it",
    "c16-8": "C16 missed it at first; new kind c16.manyfiles: 90 and 300 input files in 12 input modes under a descriptor limit of 24/32, compared with the run without the limit and with the expected content order",
    "c17-8": "C17 missed it at first; documents with mixed line terminators (LF, CRLF, lone CR in every combination before and after the fault) were added",
    "c19-6": "C19 missed it at first; new kind c19.history: one Code run on an input and then on a list of others must give for each what a fresh Code gives (regular-expression programs over 408 subject/pattern/flags triples incl. colliding concatenations)",
    "c19-8": "C19 missed it at first (C18 caught it, 702 cases); new kind c19.modvars: WithVariables names inside aliased / included / transitive modules",
})
STRENGTHENED.update({
    "c01-9": "C01 and C04 missed it at first; a family of recursive calls that look like tail calls was added to both (20 accumulator-passing functions with `$value` parameters whose later arguments read earlier parameters, 20 calls ending a try body / optional / alternative / label / reduce, each followed by something that tells the difference; 5 wrappers)",
    "c01-11": "C01 and C04 missed it at first; same family as c01-9 (recursive call at the end of a try body, with an error raised behind the call)",
    "c03-11": "C03 missed it at first; new kind c03.fromjson: 70 texts that are not exactly one JSON value (a complete value followed by `]`, `}`, `,`, ...) and 30 that are, in three calling forms",
    "c04-11": "C04 missed it at first because errors were compared by class only; internal errors are now separated into invalid-path errors and type errors when both sides are gojq (uncaught and caught-and-emitted)",
    "c05-9": "C05 missed it at first (C06's variables mode caught it); new kind c05.values: Run is given 1..5 variable values as a spread slice with four sentinels behind its length, four runs; the slice is compared after every Next and every run",
    "c05-10": "C05 missed it at first; 44 programs that put containers with 3..300 members into error messages, previews and texts were added to the rerun-equality workload",
    "c06-9": "C06 missed it at first (C05 caught it); folds whose accumulator starts from an empty value and is then extended (`[{}, LITERAL, .] | add`, reduce, `+`, `*`) were added to the concurrent workload",
    "c06-10": "needs a module loader: C08 catches it on the command line (`fatal error: all goroutines are asleep - deadlock!` for failing-then-succeeding modulemeta calls, added to c08.command); in the library a deadlocked Next is a hang, which the harness classifies as inconclusive by design",
    "c06-11": "C06 missed it at first (C05 caught it); one pattern under rejected and accepted flag sets, the rejected one first, was added to the concurrent workload",
    "c07-11": "C07 missed it at first; the stale-handle check now also closes the context only after the iterator has ended (the usual `defer cancel()`) and advances it again",
    "c08-9": "C08 missed it at first; something that cannot be compiled (53 forms: undefined function / variable / label, bad arity, after or before something that can) is now put at each of the 70 query positions of the grammar",
    "c08-10": "C08 missed it at first; 26 failing operations are now evaluated more than once in one run (5 repetition shapes), so that what a Code keeps from the first failure meets the second",
    "c09-9": "needs two goroutines: new kind c06.parse (8 goroutines Parse, print and compile 8 different texts with long escaped literals 40 times each) catches it under C06; C09 is single-threaded by design",
    "c09-10": "C09 missed it at first; module / import / include metadata with empty-string keys at every nesting depth was added to the surface pool",
    "c09-11": "C09 missed it at first; the exhaustive operator pairs (and the chaining triples) are now also parsed inside 30 bracketing positions (object values, computed keys, array, index, slice boundaries, arguments, interpolation, parts of if/reduce/foreach/try, pattern keys, definitions)",
    "c10-10": "filed under C10 by its author; it needs --yaml-input: the YAML-input kind of C12 (c12.yamlin) catches it",
    "c10-11": "C10 missed it at first (C03 caught it); a 12-fold equality battery (contains, inside, index, unique, group_by, array difference, IN, bsearch, min == max) over the boundary integers in every representation was added to c10.arith",
    "c11-9": "C11 missed it at first; integers beyond the range of a double (10^320, both signs, as *big.Int and as literals) were added to the universe",
    "c11-11": "C11 missed it at first; `_by` functions with key filters that yield a varying number of outputs per element (`.a[]?` over arrays of 0..3 values, objects, scalars, missing) were added, with the key array as the specification's key",
    "c12-11": "C12 missed it at first; new kind c12.streams: 2..6 inputs printing 0..3 values each under 9 kinds of output mode (all 81 shapes of which of 4 inputs print 0, 1 or 2 values under --yaml-output), read back by an independent reader (YAML through --yaml-input)",
    "c13-9": "C13 missed it at first; strings whose byte length lies around fixed buffer and block sizes (62..100001 bytes, one- to four-byte characters) under every string law",
    "c13-10": "filed under C13 by its author; it needs --yaml-input: C12's YAML-input kind catches it",
    "c13-11": "C13 missed it at first; new law: setpath(p; x) | getpath(p) == x for x taken from the value at p itself (every prefix and suffix slice, every member)",
    "c14-10": "C14 missed it at first; string slices with fractional and negative fractional boundaries (12 x 9 boundary pairs per subject) against the same slice of the code points",
    "c15-11": "filed under C15 by its author; the --stream check of C16 catches it",
    "c16-11": "C16 missed it at first; new kind c16.special: /dev/stdin, a named pipe, a symbolic link and /dev/null among the input files in 7 modes",
    "c17-10": "C17 missed it at first; c17.query now puts white space and line breaks in front of the query argument and file. The author's aside about the same spot became fix D43; patch and demonstration were ported to the fixed tree (see notes.md)",
    "c18-11": "C18 missed it at first; import metadata now sometimes carries decoy keys named like the fields modulemeta computes (as, relpath, is_data)",
    "c19-9": "C19 missed it at first; iterator functions that fail the usual way (`gojq.NewIter(err)`: an iterator over one error) were added, and the iterator is advanced three more times after the first uncaught error (any panic counts)",
    "c19-11": "C19 missed it at first (C05 caught it); the history kind now also runs the many-member-container programs of c05-10",
    "c20-9": "C20 missed it at first; loop turns that pass through the last or only member of a container before going on without backtracking (`[. + 1][]`, `{a: ...}[]`, split, to_entries, keys) in until / tail recursion / recurse / reduce",
    "c20-10": "C20 missed it at first, twice: long recurse/2 chains were added, and then the quadratic time of the seeded definition exhausted the instruction budget (inconclusive); the footprint is now also read at the point where the budget ends a run and compared with an early checkpoint",
})
STRENGTHENED.update({
    "c03-6": "the first evaluation had credited C03 with violations that belonged to a defect of the then-unfixed tree (D30); the re-evaluation of every change against the final tree showed that C03 missed it. New kind c03.hugeindex: 14 positions at and beyond 2^63 in every representation x 6 arrays and strings x 11 index / slice / delete forms against saturation",
    "c03-8": "same as c03-6 (first credited by mistake, found missed by the final re-evaluation). New kind c03.company: `[A, B]` must be `[A alone, B alone]` in both orders, for 12 pattern/flags pairs whose concatenations coincide in either order x 7 regular-expression functions; the same collisions were added to the history kind of C19 and the rerun workload of C05",
})
# changes that were confirmed but are not violations of the property as given (both behaviours are accepted by the checks)
STRENGTHENED.update({
    # round 5 (cNN-12, cNN-13)
    "c02-13": "C02 missed it at first; one array (with spare capacity behind its length, as decoders and append produce it) is now reached under two different paths of one update, and both the input and the other path's view must be unaffected",
    "c03-12": "filed under C03 by its author; regular-expression offsets in code points are the subject of C14, which catches it",
    "c03-13": "filed under C03 by its author; the text of strings with invalid UTF-8 is the subject of C12 (the reference interpreter of C03 declares it unsupported), which catches it",
    "c05-12": "C05 missed it at first (C19 caught it); new kind c05.callback: values handed back by registered Go functions (the argument slice itself, parts of it, wrapped in an object, through an iterator) must read as they were emitted after every later output and after the end, in two runs",
    "c06-12": "C06 missed it at first; new kind c06.mixed: 8 goroutines x 25 runs of one Code with variables, mixing complete runs, cancelled-then-drained runs, runs with too many / too few variable values, abandoned runs and finished iterators advanced again",
    "c06-13": "same as c06-12 (c06.mixed)",
    "c07-12": "C07 missed it at first; the registered Go functions of the option pool now also fail (an error value, an iterator of one / two errors, of none, a plain error) at 14 positions x every error context",
    "c08-12": "C08 missed it at first; sizes beyond the interpreter's initial tables: 20..300 variables in one scope, and the scale programs of C01",
    "c10-12": "C10 missed it at first; sums of the boundary integers through add, add/1, reduce, foreach, getpath-sum, and three-term sums in every order",
    "c12-12": "needs two goroutines: new kind c06.marshal (goroutines marshalling different values at once) catches it under C06; C12 is single-threaded by design",
    "c13-13": "C13 missed it at first; new law: two setpaths applied to one base value must not see each other (`$b | setpath(p; x)` and `$b | setpath(q; y)` then both read back, and $b unchanged)",
    "c15-12": "C15 missed it at first (C16 caught it); --raw-input became an option of the C15 model, with lines of 0..70001 bytes around the readers' buffer sizes in five positions x six option sets",
    "c15-13": "C15 missed it at first; doubles computed at run time at the thresholds of the number format (1e17, 1e-5, 2^53, 1e308 ...) were added to the literal pool",
    "c19-13": "C19 missed it at first; data imports whose alias is spelled like a variable of the caller (c19.modvars cases 7 and 8, loader with LoadJSON)",
    "c20-12": "C20 missed it at first; loops whose turn joins values (`[., 1] | add`, `{a: .} | .a`, string interpolation) were added to the generator and loop forms",
    "c20-13": "C20 missed it at first (C16 caught it); new kind c20.command-files: inputs / input / --slurp / --stream / -R over 150 and over 600 files with a descriptor limit of 32",
})
STRENGTHENED.update({
    # round 6 (cNN-14, cNN-15)
    "c02-14": "C02 missed it at first; computed nulls (14 sources: the literal, the right side of //, a branch, a bound variable, a caught error ...) followed by 14 constant and computed keys, indices and slices in 10 path contexts, on locations that do not hold null",
    "c03-15": "filed under C03 by its author; a typed nil Go map as an element is the subject of C08 (nil-container sweep), which catches it",
    "c06-14": "C06 missed it at first (C19 and C05 caught its single-goroutine symptom); new kind c06.callback: one Code with six registered Go functions run by 8 goroutines with their own $g, the functions yield the processor between reading their arguments",
    "c16-14": "C16 missed it at first; deletions below $ARGS.named / $ARGS.positional (del, delpaths, |= empty, with_entries) were added to the representation probes of c16.args",
    "c17-14": "C17 missed it at first; --yaml-input from a standard input that is a regular file positioned behind a consumed prefix (as c17.json already had it)",
    "c18-15": "C18 missed it at first; global variables are now sometimes given twice (WithVariables with a repeated name; --arg twice plus a named argument called ARGS)",
    "c20-14": "C20 missed it at first; loop turns that catch an error (of a builtin, of error/1, of an index, of a failed conversion) in until / while / recurse / reduce / foreach / tail recursion",
})
STRENGTHENED.update({
    # round 7
    "c03-16": "filed under C03 by its author; two results of one array addition sharing a backing array is aliasing, the subject of C05, which catches it",
    "c05-15": "filed under C05 by its author; a write through one path changing what an update function has already handed out is the non-interference clause of C02. C02 missed it at first as well: a family re-embedding through negative indices (8 element paths counted from the end x 11 paths below them x 6 embedding bodies x 4 orders) was added and catches it",
    "c06-15": "C06 missed it at first (C05 caught it); builtins are now also applied to the arrays of the shared input themselves (join, the sorting and grouping family, the formats, ~60 array builtins over every sub-array), not only to arrays the program builds",
    "c15-16": "filed under C15 by its author; descriptors kept per consumed file are the subject of c20.command-files (and the many-files kind of C16), which catch it",
    "c17-15": "C17 missed it at first; DEL (a legal zero-width ASCII byte inside JSON strings and jq string literals) was added to the ASCII alphabet of the generators",
    "c18-17": "C18 missed it at first; every variable reference of the generated programs is now wrapped in a probe that tells an array from a nil slice printing like one (deletions)",
    "c19-15": "C19 and C05 missed it at first; order-sensitive folds (floating-point sums that cancel) over the members of objects, 30 programs x 3-4 objects x 12 key sets, 4 runs each in C05 and 16 runs each in c19.history",
})
STRENGTHENED.update({
    # round 8
    "c02-16": "C02 missed it at first (the reference primitives declare a negative fractional index unsupported); new kind c02.readwrite: 11 laws tying setpath, `=`, `|=`, `+=`, del and delpaths to the element getpath finds through 31 hostile indices on arrays with distinct elements",
    "c03-17": "C03 missed it at first; new kind c03.rangeedge: range($from; $upto; $by) across the edges of the machine integers (7 edges x 12 steps of either sign x 7 offsets x 4 representations) against the arithmetic progression computed with math/big",
    "c06-16": "C06 missed it at first (C10 and C05 caught it); integer literals beyond 64 bits — pointers inside the shared Code — under every arithmetic operator were added to the concurrent workload (the race detector reports the concurrent writes)",
    "c08-17": "C08 missed it at first; clusters of short flags that end in (or contain) the one that takes a value (-nL dir, -ncL, -nfL ...) were added to the argv pool",
    "c12-16": "C12 missed it at first; new kind c12.touched: number literals with hostile spellings (negative zeros with fractions and exponents, underflowing and overflowing values, trailing zeros) touched by one of 31 operations, written under 6 output modes and YAML, read back, and `tojson | fromjson | tojson` compared",
    "c15-17": "filed under C15 by its author, whose model has no YAML output; c12.streams caught it after inputs that fail or halt before, between and after their values (256 shapes of 4 inputs) were added",
    "c16-17": "C16 missed it at first; new kind c16.procfs: /proc/version (reported size 0) under -Rs, -R, --rawfile, between other files and as a redirected standard input",
    "c17-16": "C17 missed it at first; new kind c17.yamlfixed: twelve hand-written YAML streams with U+FEFF inside scalars, in comments and as byte order marks of later documents (the random generator cannot carry the character: the YAML decoder itself misreads some valid documents that contain it); U+FEFF also joined the alphabets of the JSON and query generators",
    "c19-16": "filed under C19 by its author; it is the mechanism of c18-15 (a repeated global variable name shifting what modules see), which C18 catches",
    "c20-16": "caught by a single case at first; ten loop forms whose turns evaluate a path expression that forks while it is tracked were added",
})
NOT_A_VIOLATION = {
    "c04-16": "the folded and the unfolded literal -9223372036854775808 differ in the Go type that carries the value (int / *big.Int), not in the value: no query can tell them apart (C03 checks exactly that interchangeability), so the optimisation stays unobservable in the sense of the property; the author says as much",
    "c15-6": "after a malformed document in a file that is not the last one, the unchanged command goes on with the next file, the changed one stops. C16 says of a malformed document 'every complete value before it, then one error, then end of input' and C15 speaks of runtime errors of the query only; neither property decides whether the files named later are still read, so the checks accept both (DESIGN 9.2, 'not defects')",
}
OVERRIDE_NEEDS = {}


def needs(notes):
    if not os.path.exists(notes):
        return ""
    txt = open(notes).read()
    # bullets may continue on following indented lines
    blocks = re.split(r"\n(?=\* |- |\d+\. |#)", txt)
    for b in blocks:
        head = b[:60].lower()
        if "need" in head or "requires" in head or "to manifest" in head:
            return " ".join(b.split())[:1200]
    for b in blocks:
        if "need" in b.lower():
            return " ".join(b.split())[:1200]
    return ""


def main():
    rows = []
    for d in sorted(glob.glob(os.path.join(ROOT, "seeded", "c*-*"))):
        name = os.path.basename(d)
        ev = os.path.join(d, "eval.txt")
        if not os.path.exists(ev):
            continue
        txt = open(ev, errors="replace").read()
        prop = "C" + name[1:3]
        m = {
            "demo_unchanged": re.search(r"demo on unchanged tree: exit=(\d+)", txt),
            "build": re.search(r"build\+vet with patch: exit=(\d+)", txt),
            "suite": re.search(r"repository suite with patch: exit=(\d+)", txt),
            "demo_patched": re.search(r"demo with patch: exit=(\d+)", txt),
        }
        st = {k: (int(v.group(1)) if v else None) for k, v in m.items()}
        checks = {}
        for mm in re.finditer(r"^(C\d\d): (\d+) VIOLATION lines; (.*)$", txt, re.M):
            vio = re.search(r"violations=(\d+)", mm.group(3))
            checks[mm.group(1)] = {"violation_lines": int(mm.group(2)), "violations": int(vio.group(1)) if vio else None}
        caught = sorted(k for k, v in checks.items() if v["violation_lines"] > 0)
        first = re.search(r"^VIOLATION property=(C\d\d).*\n\s+(.*)$", txt, re.M)
        title = ""
        np = os.path.join(d, "notes.md")
        if os.path.exists(np):
            title = open(np).readline().strip().lstrip("# ").strip()
        confirmed = st["demo_unchanged"] == 0 and st["build"] == 0 and st["suite"] == 0 and st["demo_patched"] not in (0, None)
        meta = {
            "name": name,
            "property": prop,
            "title": title,
            "needs_to_manifest": OVERRIDE_NEEDS.get(name) or needs(np),
            "confirmed": confirmed,
            "what_was_run": [
                "git -C /repo worktree add --detach /tmp/vpd-se-%s HEAD (scratch worktree, removed afterwards)" % name,
                "demonstration on the unchanged worktree: exit=%s" % st["demo_unchanged"],
                "git apply patch.diff; go1.26 build ./... && go1.26 vet ./...: exit=%s" % st["build"],
                "go1.26 test -count=1 ./... (repository suite, unedited) with the patch: exit=%s" % st["suite"],
                "demonstration with the patch: exit=%s" % st["demo_patched"],
            ] + ["tools/sens.sh <worktree> %s quick (VERIF_SEED=1): %d VIOLATION lines (%s violations)" % (k, v["violation_lines"], v["violations"]) for k, v in sorted(checks.items())],
            "checks_run": checks,
            "caught_by": caught,
            "example_violation": (first.group(2)[:400] if first else ""),
            "strengthening": STRENGTHENED.get(name, ""),
            "not_a_violation": NOT_A_VIOLATION.get(name, ""),
        }
        json.dump(meta, open(os.path.join(d, "meta.json"), "w"), indent=1)
        rows.append(meta)
    out = ["# Seeded changes: which check catches which change", "",
           "Generated by `tools/seed_meta.py` from `seeded/*/eval.txt` (each produced by `tools/seed_eval.sh` in a scratch worktree of /repo;",
           "none of these changes was ever applied to /repo's committed history). Every change compiles, passes `go vet` and the unedited repository",
           "suite, and comes with a demonstration that fails with the change and passes without it (column *confirmed*).",
           "The authors saw only the property text, never /verif. Checks were run at the quick tier, seed 1.", "",
           "| change | property | what was changed | confirmed | caught by (quick) | run but silent | strengthening needed |", "|---|---|---|---|---|---|---|"]
    for m in rows:
        silent = sorted(k for k in m["checks_run"] if k not in m["caught_by"])
        out.append("| %s | %s | %s | %s | %s | %s | %s |" % (m["name"], m["property"], m["title"].replace("|", "\\|")[:160], "yes" if m["confirmed"] else "NO",
                                                        ", ".join("%s (%s)" % (k, m["checks_run"][k]["violations"]) for k in m["caught_by"]) or "**none**",
                                                        ", ".join(silent) or "–", m["strengthening"] or (("not a violation of the property as given: " + m["not_a_violation"]) if m["not_a_violation"] else "–")))
    missed = [m["name"] for m in rows if m["confirmed"] and m["property"] not in m["caught_by"] and not m["not_a_violation"]]
    out += ["", "Changes not caught by the check of their own property: %s" % (", ".join(missed) or "none"), ""]
    open(os.path.join(ROOT, "SENSITIVITY.md"), "w").write("\n".join(out))
    print("%d seeded changes; missed by own property's check: %s" % (len(rows), missed))


if __name__ == "__main__":
    main()
