#!/bin/bash
# builds, vets and runs the unedited repository suite of /repo (guard off); exit 0 only if everything passes
export GOFLAGS=-mod=mod GOPROXY=off GOSUMDB=off GOTOOLCHAIN=local
cd ${1:-/repo} || exit 2
go1.26 build ./... || exit 1
go1.26 vet ./... || exit 1
out=$(go1.26 test -vet=off -count=1 ./... 2>&1); rc=$?
echo "$out" | tail -4
[ $rc -eq 0 ] && ! echo "$out" | grep -q "^FAIL\|^--- FAIL" || { echo "SUITE FAILED"; exit 1; }
echo "SUITE OK"
