#!/bin/bash
# usage: tools/seed_keep.sh <name> <property> <patch> <demo> <notes> <checks>  — evaluates and stores under /verif/seeded/<name>/
cd "$(dirname "$0")/.."
NAME=$1; PROP=$2; PATCH=$3; DEMO=$4; NOTES=$5; CHECKS=$6
D=seeded/$NAME; mkdir -p $D
cp "$PATCH" $D/patch.diff; cp "$DEMO" $D/$(basename "$DEMO" | sed 's/[0-9]\././'); [ -f "$NOTES" ] && cp "$NOTES" $D/notes.md
tools/seed_eval.sh $NAME "$PATCH" "$DEMO" "$CHECKS" > $D/eval.txt 2>&1
echo "== $NAME ($PROP)"; grep -E "^demo|^build|^repository|^C[0-9][0-9]:|DOES NOT APPLY" $D/eval.txt
