#!/bin/bash
# usage: tools/seed_batch.sh <Cnn> <seed dir> <offset> [extra checks]  — evaluates patch1..N.diff of a seeding round as c<nn>-(offset+i)
cd "$(dirname "$0")/.."
P=$1; DIR=$2; OFF=$3; EXTRA=$4
nn=$(echo $P | tr 'C' 'c')
for i in 1 2 3 4; do
  [ -f $DIR/patch$i.diff ] || continue
  demo=$(ls $DIR/demo$i* 2>/dev/null | head -1)
  [ -n "$demo" ] || { echo "== $nn-$((OFF+i)): no demo"; continue; }
  tools/seed_keep.sh $nn-$((OFF+i)) $P $DIR/patch$i.diff $demo $DIR/notes$i.md $P${EXTRA:+,$EXTRA}
done
