#!/usr/bin/env python3
"""Development aid (sensitivity): mechanical mutants of the gojq sources.

For each mutant: a scratch worktree of /repo (never /repo itself) gets one small edit (a flipped comparison, a changed
constant, a dropped negation, a swapped boolean operator ...) at a PRNG-chosen site of a non-test source file; if it still
builds, vets and passes the repository's own suite (a mutant the suite kills is of no interest), the quick checks that
watch the file are run against it with tools/sens.sh. Output: one line per mutant in the log, and for every mutant that
survives both the suite and the checks the diff, for triage (equivalent mutant, or a gap in a check).

usage: tools/mutate.py <seed> <count> <logdir> [file ...]
"""
import os, random, re, subprocess, sys, json

ENV = dict(os.environ, GOFLAGS="-mod=mod", GOPROXY="off", GOSUMDB="off", GOTOOLCHAIN="local")
FILES = {
    "func.go": "C03,C02,C10,C11,C13,C14,C05",
    "execute.go": "C01,C02,C04,C07,C20",
    "compiler.go": "C01,C04,C18,C19,C20",
    "operator.go": "C03,C10,C05",
    "compare.go": "C11,C03",
    "encoder.go": "C12,C10,C13",
    "lexer.go": "C09,C17,C08",
    "query.go": "C09,C04",
    "env.go": "C01,C07,C20",
    "stack.go": "C01,C20",
    "preview.go": "C08,C05",
    "type.go": "C03",
    "iter.go": "C19,C07",
    "option.go": "C19",
    "module_loader.go": "C18,C17",
    "error.go": "C08,C15",
    "cli/cli.go": "C15,C16,C12",
    "cli/inputs.go": "C16,C17,C15,C20",
    "cli/stream.go": "C16,C17",
    "cli/encoder.go": "C12,C10",
    "cli/error.go": "C17,C15",
    "cli/marshaler.go": "C12",
    "cli/yaml.go": "C12",
}
OPS = [
    (r" < ", " <= "), (r" <= ", " < "), (r" > ", " >= "), (r" >= ", " > "), (r" == ", " != "), (r" != ", " == "),
    (r" && ", " || "), (r" \|\| ", " && "), (r" \+ 1\b", " + 2"), (r" - 1\b", ""), (r" \+ 1\b", ""), (r"\btrue\b", "false"), (r"\bfalse\b", "true"),
    (r"!ok\b", "ok"), (r"\bif !", "if "), (r"\b0\b", "1"), (r"\b1\b", "0"), (r"\+\+", "--"), (r" \+= ", " -= "), (r"\[1:\]", "[0:]"), (r"len\((\w+)\)-1", r"len(\1)"),
    (r"\bbreak\b", "continue"), (r"\bmath\.Floor\b", "math.Ceil"), (r"\bmath\.Ceil\b", "math.Floor"), (r"\bmin\(", "max("), (r"\bmax\(", "min("),
]


def sh(cmd, cwd=None, timeout=1200):
    try:
        p = subprocess.run(cmd, shell=True, cwd=cwd, env=ENV, capture_output=True, text=True, timeout=timeout, stdin=subprocess.DEVNULL)
        return p.returncode, p.stdout + p.stderr
    except subprocess.TimeoutExpired:
        return 124, "timeout"


def main():
    seed, count, logdir = int(sys.argv[1]), int(sys.argv[2]), sys.argv[3]
    files = sys.argv[4:] or list(FILES)
    os.makedirs(logdir, exist_ok=True)
    rnd = random.Random(seed)
    log = open(os.path.join(logdir, "mutants-%d.log" % seed), "a")
    wt = "/tmp/vpd-mut-%d" % seed
    sh("git -C /repo worktree remove --force %s; rm -rf %s %s.verif" % (wt, wt, wt))
    rc, out = sh("git -C /repo worktree add -q --detach %s HEAD" % wt)
    if rc != 0:
        print(out)
        return
    done = 0
    tries = 0
    while done < count and tries < count * 30:
        tries += 1
        f = rnd.choice(files)
        path = os.path.join(wt, f)
        lines = open(path).read().split("\n")
        cands = []
        for i, l in enumerate(lines):
            s = l.strip()
            if not s or s.startswith("//") or "verif" in l or s.startswith("import") or s.startswith('"') or "panic(" in l:
                continue
            code = l.split("//")[0]
            for oi, (pat, rep) in enumerate(OPS):
                for m in re.finditer(pat, code):
                    # not inside a string literal (rough: even number of quotes before the match)
                    if code[:m.start()].count('"') % 2 == 1 or code[:m.start()].count('`') % 2 == 1:
                        continue
                    cands.append((i, oi, m.start(), m.end()))
        if not cands:
            continue
        i, oi, a, b = rnd.choice(cands)
        pat, rep = OPS[oi]
        old = lines[i]
        new = old[:a] + re.sub(pat, rep, old[a:b], count=1) + old[b:]
        if new == old:
            continue
        lines[i] = new
        open(path, "w").write("\n".join(lines))
        tag = "%s:%d  %s  =>  %s" % (f, i + 1, old.strip()[:90], new.strip()[:90])
        rc, out = sh("go1.26 build ./... && go1.26 vet ./...", cwd=wt, timeout=300)
        if rc != 0:
            sh("git checkout -q -- .", cwd=wt)
            continue
        rc, out = sh("timeout 600 go1.26 test -count=1 ./...", cwd=wt, timeout=700)
        if rc != 0:
            log.write("SUITE-KILLS  %s\n" % tag)
            log.flush()
            sh("git checkout -q -- .", cwd=wt)
            continue
        done += 1
        caught = []
        for cid in FILES[f].split(","):
            rc, out = sh("tools/sens.sh %s %s quick" % (wt, cid), cwd="/verif", timeout=3000)
            n = len([l for l in out.split("\n") if l.startswith("VIOLATION")])
            if n > 0:
                caught.append("%s(%d)" % (cid, n))
                break  # one check is enough
        if caught:
            log.write("CAUGHT %-10s %s\n" % (",".join(caught), tag))
        else:
            rc, diff = sh("git diff", cwd=wt)
            log.write("SURVIVES     %s\n" % tag)
            open(os.path.join(logdir, "survivor-%d-%d.diff" % (seed, done)), "w").write(diff)
        log.flush()
        sh("git checkout -q -- .", cwd=wt)
    sh("git -C /repo worktree remove --force %s; rm -rf %s %s.verif" % (wt, wt, wt))
    log.write("END seed=%d mutants=%d tries=%d\n" % (seed, done, tries))
    log.close()


if __name__ == "__main__":
    main()
