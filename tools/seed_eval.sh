#!/bin/bash
# Development aid: confirm a seeded change and run checks against it, all in a scratch worktree (never /repo).
# usage: tools/seed_eval.sh <name> <patch.diff> <demo file (.go test or .sh)> <Cnn,Cnn,...>
# prints: build/vet/suite status with the patch, demo status with and without the patch, and per check the number of violations.
cd "$(dirname "$0")/.."
NAME=$1; PATCH=$(realpath "$2"); DEMO0=$(realpath "$3"); CHECKS=$4
# demonstrations often hard-code the author's worktree path: point them at the scratch tree instead
DEMO=/tmp/vpd-se-$NAME.$(basename "$DEMO0"); sed "s#/tmp/vp[s-z]-C[0-9][0-9]#/tmp/vpd-se-$NAME#g" "$DEMO0" > "$DEMO"
export GOFLAGS=-mod=mod GOPROXY=off GOSUMDB=off GOTOOLCHAIN=local
WT=/tmp/vpd-se-$NAME
git -C /repo worktree remove --force $WT 2>/dev/null; rm -rf $WT $WT.verif
git -C /repo worktree add -q --detach $WT HEAD || exit 2
rundemo() { # $1 = tree
  case "$DEMO" in
    *_test.go)
      pkg=$(grep -m1 '^package ' "$DEMO" | awk '{print $2}')
      dir=$1; case "$pkg" in cli|cli_test) dir=$1/cli;; esac
      cp "$DEMO" $dir/zz_demo_seed_test.go
      (cd $dir && timeout 600 go1.26 test -count=1 -run 'DemoSeed' . >/tmp/vpd-se-$NAME.demo.log 2>&1); rc=$?
      rm -f $dir/zz_demo_seed_test.go; return $rc;;
    *.sh) mkdir -p $1/seed; cp "$DEMO" $1/seed/$(basename "$DEMO0"); (cd $1 && WT=$1 timeout 900 bash seed/$(basename "$DEMO0") >/tmp/vpd-se-$NAME.demo.log 2>&1); rc=$?; rm -rf $1/seed; return $rc;;
    *.go) (cd $1 && mkdir -p zzdemo && cp "$DEMO" zzdemo/main.go && timeout 600 go1.26 run ./zzdemo >/tmp/vpd-se-$NAME.demo.log 2>&1); rc=$?; rm -rf $1/zzdemo; return $rc;;
  esac
}
rundemo $WT; echo "demo on unchanged tree: exit=$? (expect 0)"
if ! git -C $WT apply "$PATCH" 2>/tmp/vpd-se-$NAME.apply.log; then
  if ! git -C $WT apply --3way "$PATCH" 2>>/tmp/vpd-se-$NAME.apply.log; then echo "PATCH DOES NOT APPLY"; cat /tmp/vpd-se-$NAME.apply.log | head; git -C /repo worktree remove --force $WT; exit 3; fi
fi
(cd $WT && go1.26 build ./... && go1.26 vet ./... ) >/tmp/vpd-se-$NAME.build.log 2>&1; echo "build+vet with patch: exit=$?"
(cd $WT && go1.26 test -count=1 ./... ) >/tmp/vpd-se-$NAME.test.log 2>&1; echo "repository suite with patch: exit=$? ($(grep -c '^ok' /tmp/vpd-se-$NAME.test.log) packages ok)"
rundemo $WT; echo "demo with patch: exit=$? (expect non-zero)"
for id in ${CHECKS//,/ }; do
  res=$(tools/sens.sh $WT $id quick 2>&1)
  echo "$id: $(echo "$res" | grep -c '^VIOLATION') VIOLATION lines; $(echo "$res" | grep "^$id quick" | cut -c1-110)"
  echo "$res" | grep -A2 "^VIOLATION" | head -6 | cut -c1-400
done
git -C /repo worktree remove --force $WT; rm -rf $WT.verif
