#!/usr/bin/env python3
"""Validate MANIFEST.json and evidence/*.json against the schemas in /root/.vp (dev helper)."""
import json, sys, glob
import jsonschema
ok = True
m = json.load(open('/verif/MANIFEST.json'))
jsonschema.validate(m, json.load(open('/root/.vp/MANIFEST.schema.json')))
es = json.load(open('/root/.vp/EVIDENCE.schema.json'))
for f in sorted(glob.glob('/verif/evidence/*.json')):
    try:
        jsonschema.validate(json.load(open(f)), es)
        print('ok', f)
    except Exception as e:
        ok = False
        print('INVALID', f, str(e)[:300])
props = [json.loads(l)['id'] for l in open('/verif/properties.jsonl')]
claimed = {c['property_id'] for c in m['checks']}
na = {c['property_id'] for c in m.get('not_applicable', [])}
for p in props:
    if (p in claimed) == (p in na):
        ok = False
        print('property', p, 'must be either claimed or not_applicable')
sys.exit(0 if ok else 1)
