#!/bin/bash
# usage: tools/sweep.sh [tier] seed...   — runs every registered check at the given seeds and prints one line per run
cd "$(dirname "$0")/.."
TIER=quick
case "${1:-}" in quick|thorough) TIER=$1; shift;; esac
./check.sh setup >/dev/null || { echo "setup failed"; exit 1; }
rc=0
for seed in "$@"; do
  for id in C01 C02 C03 C04 C05 C06 C07 C08 C09 C10 C11 C12 C13 C14 C15 C16 C17 C18 C19 C20; do
    out=$(VERIF_SEED=$seed ./check.sh $id $TIER 2>&1); code=$?
    echo "seed=$seed $id exit=$code $(echo "$out" | grep "^$id $TIER" | tail -1 | cut -c1-160)"
    if [ $code -ne 0 ]; then rc=1; echo "$out" | grep -E "VIOLATION|INCONCLUSIVE|HANG|RESOURCE" | head -8; echo "$out" | grep -A3 VIOLATION | head -30; fi
  done
done
exit $rc
