#!/bin/bash
# Development aid: run a check against a scratch copy of the repository (never /repo).
# usage: tools/sens.sh <scratch-repo-dir> <Cnn> [quick|thorough]
# A private copy of /verif is made next to the scratch repo so that /verif's own
# bin/, evidence/ and replays/ are not touched.
set -eu
REPO=$(realpath "$1"); ID=$2; TIER=${3:-quick}
W="$REPO.verif"
mkdir -p "$W"
rsync -a --delete --exclude .git --exclude work --exclude bin --exclude replays --exclude evidence /verif/ "$W/"
sed -i "s#=> /repo#=> $REPO#" "$W/harness/go.mod"
sed -i "s#\"/repo/builtin.jq\"#\"$REPO/builtin.jq\"#; s#\"/repo/cli/test.yaml\"#\"$REPO/cli/test.yaml\"#" "$W/harness/internal/model/interp.go" "$W/harness/internal/gen/corpus.go"
cd "$W" && VERIF_REPO="$REPO" ./check.sh "$ID" "$TIER"
