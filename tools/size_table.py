#!/usr/bin/env python3
"""Prints the rows of DESIGN 9.4 from evidence/*.json (as left by the last run of each check) and the kinds registered in the harness."""
import json, re, glob, os
ROOT = os.path.dirname(os.path.dirname(os.path.abspath(__file__)))
kinds = {}
for f in glob.glob(os.path.join(ROOT, "harness/internal/mon/*.go")):
    for m in re.finditer(r'run\.NewKind\("(c(\d\d)\.[a-z0-9\-]+)"', open(f).read()):
        kinds.setdefault("C" + m.group(2), set()).add(m.group(1))
def h(n):
    return "%.2f M" % (n / 1e6) if n >= 1e6 else ("%.1f k" % (n / 1e3) if n >= 1e4 else str(n))
print("| id | kinds (sub-checks) | evaluations / distinct non-trivial | wall (s) |")
print("|----|--------------------|------------------------------------|------|")
for i in range(1, 21):
    pid = "C%02d" % i
    e = json.load(open(os.path.join(ROOT, "evidence", pid + ".json")))
    cov = e["coverage"]
    print("| %s | %s | %s / %s | %.0f |" % (pid, " ".join("`%s`" % k for k in sorted(kinds.get(pid, []))), h(cov["evaluations"]), h(cov["distinct_nontrivial"]), e.get("wall_s", 0)))
