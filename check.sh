#!/bin/bash
# ./check.sh setup | <Cnn> quick|thorough | <Cnn> replay <file>
# Rebuilds the harness (and cmd/gojq) from /repo's current working tree with
# the verif build tag, then runs the requested check.
set -u
cd "$(dirname "$0")"
ROOT=$(pwd)
export GOFLAGS=-mod=mod GOPROXY=off GOSUMDB=off GOTOOLCHAIN=local CGO_ENABLED=1
export VERIF_ROOT=$ROOT
GO=${VERIF_GO:-go1.26}
REPO=${VERIF_REPO:-/repo}

build() {
  mkdir -p "$ROOT/bin" "$ROOT/work"
  exec 9> "$ROOT/work/.build.lock"
  flock 9
  cp "$REPO/go.sum" "$ROOT/harness/go.sum" || return 1
  (cd "$ROOT/harness" && $GO build -tags verif -o "$ROOT/bin/vcheck" ./cmd/vcheck) || return 1
  (cd "$REPO" && $GO build -tags verif -o "$ROOT/bin/gojq" ./cmd/gojq) || return 1
  if [ "${1:-}" = race ]; then
    (cd "$ROOT/harness" && $GO build -race -tags verif -o "$ROOT/bin/vcheck.race" ./cmd/vcheck) || return 1
  fi
  flock -u 9
}

case "${1:-}" in
  setup)
    mkdir -p "$ROOT/work"
    build race > "$ROOT/work/.build.log" 2>&1 || { mkdir -p "$ROOT/work"; cat "$ROOT/work/.build.log"; echo "setup: build failed"; exit 1; }
    echo "setup ok"; exit 0;;
  "") echo "usage: $0 setup | <Cnn> quick|thorough | <Cnn> replay <file>"; exit 2;;
esac

ID=$1; MODE=${2:-${VERIF_TIER:-quick}}
NEED=""
case "$ID" in C06) NEED=race;; esac
mkdir -p "$ROOT/work"
LOG="$ROOT/work/.build-$ID-$$.log"
if ! build $NEED > "$LOG" 2>&1; then
  cat "$LOG"; rm -f "$LOG"
  echo "INCONCLUSIVE property=$ID the tree under test (or the harness) does not build"
  exit 1
fi
rm -f "$LOG"
case "$MODE" in
  replay)
    if [ "$NEED" = race ]; then
      mkdir -p "$ROOT/work/replay-$$"
      GORACE="halt_on_error=0 exitcode=0 log_path=$ROOT/work/replay-$$/race.log" "$ROOT/bin/vcheck.race" replay "$3"; rc=$?
      rm -rf "$ROOT/work/replay-$$"; exit $rc
    fi
    exec "$ROOT/bin/vcheck" replay "$3";;
  quick|thorough) exec "$ROOT/bin/vcheck" run "$ID" "$MODE";;
  *) echo "unknown mode $MODE"; exit 2;;
esac
